/* contracts/tpcore.h -- unit `tpcore`: libxcm/tp/common/xcm_tp.c, the transport-operation wrappers
 *   xcm_tp_socket_create/destroy/init/connect/server/accept/send/receive/finish/update/close/cleanup/enable_ctl,
 *   consider_ctl, do_ctl            (the attribute getters of this file are unit tcpattr, get_next_sock_id is unit locks)
 * serves  C04  every transport operation is followed by the transport's update() on the same socket (no lost wake-up)
 *         C14  control-interface work on the data path: rate of ctl_process, never changes rv/errno of the operation
 *         C08  create/destroy pairing, ctl objects created and destroyed in pairs, cleanup passes owner == false
 *
 * WHAT IS CUT AWAY (everything below is ASSUMED here, attached to body-less functions):
 *   - the transport behind s->proto->ops: one contract-carrying stub per operation (xv_*_stub).  A stub returns ANY int
 *     and leaves ANY errno (so the wrappers are proved for every behaviour of every transport), never writes the common
 *     header of the socket (struct xcm_socket: proto, type, flags, ctl, skipped_ctl_calls -- the only transport code
 *     that does is utls_enable_ctl, which is why xv_enable_ctl_stub may write s->ctl), and keeps the ghost record below.
 *     xv_update_stub does NOT write errno: this is the obligation the wrappers put on every transport's update (enforced
 *     for btcp: BT_UPD_ASSIGNS of contracts/btcp.h has no xv_errno).
 *   - libxcm/ctl (ctl_process, ctl_create, ctl_destroy): ghost "ran" records.  ctl_process and ctl_destroy leave errno
 *     alone (UT_SAVE_ERRNO .. UT_RESTORE_ERRNO_DC around their whole bodies, ctl.c:137-159, :347-361; to be enforced by
 *     unit ctl); ctl_create may leave ANY errno (it restores errno only around create_ux, ctl.c:95-97).
 *   - get_next_sock_id: returns the ghost xv_id_ret (its lock discipline is unit locks).
 *
 * GHOST SEQUENCE COUNTER.  xv_seq ticks once in EVERY stub (transport op, update, enable_ctl, priv_size, ctl_*).  Each
 * record keeps the tick at which its call happened, so contracts state the ORDER of calls exactly, and
 * `xv_seq == old(xv_seq) + n` states that exactly n calls left xcm_tp.c.
 * TRACKED SOCKET.  xv_t is never assigned: xv_updt_calls/xv_updt_seq count the update() calls made ON xv_t.  What is
 * proved about them holds for every socket (used where two sockets are in play: accept).
 */
#ifndef XV_TPCORE_H
#define XV_TPCORE_H
#include "contracts/begin.h"

#define XV_CALLS_MAX (1L << 40)            /* ghost counters start below this ...                              */
#define XV_CALLS_LIM (XV_CALLS_MAX + 64)   /* ... and every stub accepts them below this (a wrapper makes <= 6 calls) */
#ifndef XV_PRIV_MAX
#define XV_PRIV_MAX (1UL << 24)            /* TRUSTED: a transport's private area is smaller than 16 MiB (the largest real
                                              one, struct btls_socket, is a few KiB); keeps sizeof()+priv_size from wrapping */
#endif

enum xv_op_kind { XV_OP_NONE, XV_OP_INIT, XV_OP_CONNECT, XV_OP_SERVER, XV_OP_ACCEPT, XV_OP_SEND, XV_OP_RECEIVE, XV_OP_FINISH,
                  XV_OP_CLOSE, XV_OP_CLEANUP };

long xv_seq;                               /* ticks in every stub */
/* the transport operation proper: which, when, on which socket, with which arguments, what it returned, errno it left */
long xv_op_calls; int xv_op_kind; long xv_op_seq; const struct xcm_socket *xv_op_s; const void *xv_op_a1; size_t xv_op_a2;
int xv_op_rv; int xv_op_errno;
/* update(): all calls / the calls on the tracked socket xv_t.  (No "socket updated last" pointer: a POINTER-typed ghost
 * that a replaced contract equates with its argument (`ensures(g == s)`) makes every path on which that contract is applied
 * TWICE with two different pointers infeasible in CBMC 6.11 -- silently: the DFCC havoc of a pointer-typed target gives the
 * same value at both call sites; only the canaries of job accept noticed (reproduction: 25 lines, reported to the
 * framework).  Integer ghosts are not affected.  The pointer records of this file are written at most once per path, or
 * with the same value -- job lifecycle therefore passes NULL addresses/buffers.) */
long xv_upd_calls; long xv_upd_seq;
const struct xcm_socket *xv_t; long xv_updt_calls; long xv_updt_seq;
/* the transport's own enable_ctl operation */
long xv_en_calls; long xv_en_seq; const struct xcm_socket *xv_en_s;
/* priv_size() */
long xv_ps_calls; int xv_ps_arg; size_t xv_ps_ret;
/* libxcm/ctl */
long xv_ctlp_calls; long xv_ctlp_seq; const struct ctl *xv_ctlp_arg;                                   /* ctl_process */
long xv_ctlc_calls; long xv_ctlc_seq; const struct xcm_socket *xv_ctlc_sock; struct ctl *xv_ctlc_ret;  /* ctl_create  */
long xv_ctld_calls; long xv_ctld_seq; const struct ctl *xv_ctld_arg; _Bool xv_ctld_owner;              /* ctl_destroy */
long xv_ctl_live;                          /* control interfaces created and not yet destroyed */
/* get_next_sock_id */
long xv_id_calls; int64_t xv_id_ret;
/* ghost constants (never assigned): the entry state of the socket under proof, bound by a requires clause (G_BIND), so that
 * the canaries of the harnesses can name INPUT scenarios (a canary that names an outcome dies with the property) */
_Bool xv_g_ctl, xv_g_auto_upd, xv_g_auto_ctl, xv_g_own_en; uint64_t xv_g_skipped;

#define XV_C_OK(c, lim) ((c) >= 0 && (c) < (lim))
#define XV_TP_RANGE(lim, lo) (XV_C_OK(xv_seq, lim) && XV_C_OK(xv_op_calls, lim) && XV_C_OK(xv_upd_calls, lim) && XV_C_OK(xv_updt_calls, lim) && \
                          XV_C_OK(xv_en_calls, lim) && XV_C_OK(xv_ps_calls, lim) && XV_C_OK(xv_ctlp_calls, lim) && XV_C_OK(xv_ctlc_calls, lim) && \
                          XV_C_OK(xv_ctld_calls, lim) && XV_C_OK(xv_id_calls, lim) && xv_ctl_live >= (lo) && xv_ctl_live < (lim))
#define XV_TP_RANGE_IN XV_TP_RANGE(XV_CALLS_MAX, 1)     /* required by the functions under proof */
#define XV_TP_RANGE_STUB XV_TP_RANGE(XV_CALLS_LIM, 0)   /* required by the stubs */

#define XV_TICK (xv_seq == __CPROVER_old(xv_seq) + 1)
#define XV_INC(c) ((c) == __CPROVER_old(c) + 1)
#define XV_SAME(c) ((c) == __CPROVER_old(c))

/* ================================================================================================================ */
/* part 1: THE TRANSPORT (stubs behind the ops table) -- ASSUMED                                                      */
/* ================================================================================================================ */
#define OP_ASSIGNS xv_errno, xv_seq, xv_op_calls, xv_op_kind, xv_op_seq, xv_op_s, xv_op_a1, xv_op_a2, xv_op_rv, xv_op_errno
#define OP_RECORD(kind, s, a1, a2) (XV_TICK && xv_op_seq == xv_seq && XV_INC(xv_op_calls) && xv_op_kind == (kind) && xv_op_s == (s) && \
                                    xv_op_a1 == (a1) && xv_op_a2 == (a2) && xv_op_errno == xv_errno)
#define OP_RECORD_RV(kind, s, a1, a2) (OP_RECORD(kind, s, a1, a2) && xv_op_rv == __CPROVER_return_value)

int xv_init_stub(struct xcm_socket *s, struct xcm_socket *parent)
__CPROVER_requires(XV_TP_RANGE_STUB)
__CPROVER_assigns(OP_ASSIGNS)
__CPROVER_ensures(OP_RECORD_RV(XV_OP_INIT, s, parent, 0))
;
int xv_connect_stub(struct xcm_socket *s, const char *remote_addr)
__CPROVER_requires(XV_TP_RANGE_STUB)
__CPROVER_assigns(OP_ASSIGNS)
__CPROVER_ensures(OP_RECORD_RV(XV_OP_CONNECT, s, remote_addr, 0))
;
int xv_server_stub(struct xcm_socket *s, const char *local_addr)
__CPROVER_requires(XV_TP_RANGE_STUB)
__CPROVER_assigns(OP_ASSIGNS)
__CPROVER_ensures(OP_RECORD_RV(XV_OP_SERVER, s, local_addr, 0))
;
int xv_accept_stub(struct xcm_socket *conn_s, struct xcm_socket *server_s)
__CPROVER_requires(XV_TP_RANGE_STUB)
__CPROVER_assigns(OP_ASSIGNS)
__CPROVER_ensures(OP_RECORD_RV(XV_OP_ACCEPT, conn_s, server_s, 0))
;
int xv_send_stub(struct xcm_socket *s, const void *buf, size_t len)
__CPROVER_requires(XV_TP_RANGE_STUB)
__CPROVER_assigns(OP_ASSIGNS)
__CPROVER_ensures(OP_RECORD_RV(XV_OP_SEND, s, buf, len))
;
/* (the bytes a receive stores are the transport's business: units ux, framing, btcp, btls) */
int xv_receive_stub(struct xcm_socket *s, void *buf, size_t capacity)
__CPROVER_requires(XV_TP_RANGE_STUB)
__CPROVER_assigns(OP_ASSIGNS)
__CPROVER_ensures(OP_RECORD_RV(XV_OP_RECEIVE, s, buf, capacity))
;
int xv_finish_stub(struct xcm_socket *s)
__CPROVER_requires(XV_TP_RANGE_STUB)
__CPROVER_assigns(OP_ASSIGNS)
__CPROVER_ensures(OP_RECORD_RV(XV_OP_FINISH, s, NULL, 0))
;
void xv_close_stub(struct xcm_socket *s)
__CPROVER_requires(XV_TP_RANGE_STUB)
__CPROVER_assigns(OP_ASSIGNS)
__CPROVER_ensures(OP_RECORD(XV_OP_CLOSE, s, NULL, 0))
;
void xv_cleanup_stub(struct xcm_socket *s)
__CPROVER_requires(XV_TP_RANGE_STUB)
__CPROVER_assigns(OP_ASSIGNS)
__CPROVER_ensures(OP_RECORD(XV_OP_CLEANUP, s, NULL, 0))
;
/* update: errno is NOT in the frame (see the head of this file) */
#define UPD_ASSIGNS xv_seq, xv_upd_calls, xv_upd_seq, xv_updt_calls, xv_updt_seq
void xv_update_stub(struct xcm_socket *s)
__CPROVER_requires(XV_TP_RANGE_STUB)
__CPROVER_assigns(UPD_ASSIGNS)
__CPROVER_ensures(XV_TICK && XV_INC(xv_upd_calls) && xv_upd_seq == xv_seq)
__CPROVER_ensures(s == xv_t ? (XV_INC(xv_updt_calls) && xv_updt_seq == xv_seq) : (XV_SAME(xv_updt_calls) && XV_SAME(xv_updt_seq)))
;
/* a transport's own enable_ctl (utls): may (re)set s->ctl, to the control interface it created or NULL */
#define EN_ASSIGNS xv_en_calls, xv_en_seq, xv_en_s
void xv_enable_ctl_stub(struct xcm_socket *s)
__CPROVER_requires(XV_TP_RANGE_STUB && __CPROVER_w_ok(s, sizeof(*s)))
__CPROVER_assigns(xv_errno, xv_seq, EN_ASSIGNS, xv_ctl_live, s->ctl)
__CPROVER_ensures(XV_TICK && XV_INC(xv_en_calls) && xv_en_seq == xv_seq && xv_en_s == s)
__CPROVER_ensures(xv_ctl_live == __CPROVER_old(xv_ctl_live) + (s->ctl != NULL ? 1 : 0))
;
size_t xv_priv_size_stub(enum xcm_socket_type type)
__CPROVER_requires(XV_TP_RANGE_STUB)
__CPROVER_assigns(xv_seq, xv_ps_calls, xv_ps_arg, xv_ps_ret)
__CPROVER_ensures(XV_TICK && XV_INC(xv_ps_calls) && xv_ps_arg == (int)type && __CPROVER_return_value == xv_ps_ret && xv_ps_ret <= XV_PRIV_MAX)
;

/* ================================================================================================================ */
/* part 2: libxcm/ctl and the id allocator -- ASSUMED                                                               */
/* ================================================================================================================ */
#define CTLP_ASSIGNS xv_ctlp_calls, xv_ctlp_seq, xv_ctlp_arg
#define CTLC_ASSIGNS xv_ctlc_calls, xv_ctlc_seq, xv_ctlc_sock, xv_ctlc_ret
#define CTLD_ASSIGNS xv_ctld_calls, xv_ctld_seq, xv_ctld_arg, xv_ctld_owner
/* ctl_process dereferences its argument: NULL is a failed precondition at the call site.  errno: not in the frame. */
void ctl_process(struct ctl *ctl)
__CPROVER_requires(XV_TP_RANGE_STUB && ctl != NULL)
__CPROVER_assigns(xv_seq, CTLP_ASSIGNS)
__CPROVER_ensures(XV_TICK && XV_INC(xv_ctlp_calls) && xv_ctlp_seq == xv_seq && xv_ctlp_arg == ctl)
;
/* ctl_create: NULL (failure is silent) or a new control interface; ANY errno */
struct ctl *ctl_create(struct xcm_socket *socket)
__CPROVER_requires(XV_TP_RANGE_STUB && socket != NULL)
__CPROVER_assigns(xv_errno, xv_seq, CTLC_ASSIGNS, xv_ctl_live)
__CPROVER_ensures(XV_TICK && XV_INC(xv_ctlc_calls) && xv_ctlc_seq == xv_seq && xv_ctlc_sock == socket && xv_ctlc_ret == __CPROVER_return_value)
__CPROVER_ensures(xv_ctl_live == __CPROVER_old(xv_ctl_live) + (__CPROVER_return_value != NULL ? 1 : 0))
;
/* ctl_destroy(NULL, ..) is a no-op; errno: not in the frame */
void ctl_destroy(struct ctl *ctl, bool owner)
__CPROVER_requires(XV_TP_RANGE_STUB)
__CPROVER_assigns(xv_seq, CTLD_ASSIGNS, xv_ctl_live)
__CPROVER_ensures(XV_TICK && XV_INC(xv_ctld_calls) && xv_ctld_seq == xv_seq && xv_ctld_arg == ctl && xv_ctld_owner == owner)
__CPROVER_ensures(xv_ctl_live == __CPROVER_old(xv_ctl_live) - (ctl != NULL ? 1 : 0))
;
static int64_t get_next_sock_id(void)
__CPROVER_requires(XV_TP_RANGE_STUB)
__CPROVER_assigns(xv_id_calls, xv_id_ret)
__CPROVER_ensures(XV_INC(xv_id_calls) && __CPROVER_return_value == xv_id_ret)
;

/* ================================================================================================================ */
/* part 3: THE CODE UNDER PROOF                                                                                     */
/* ================================================================================================================ */
#define TP_MAX_SKIPPED 256           /* MAX_SKIPPED_CTL_CALLS */
#define TP_EAGAIN_WEIGHT 64          /* MAX_SKIPPED_CTL_CALLS / MAX_WAKEUPS_PER_CTL_CHECK */
/* every operation of the table is the stub; enable_ctl is optional (only utls has one) */
#define OPS_ARE_STUBS(o) ((o)->init == xv_init_stub && (o)->connect == xv_connect_stub && (o)->server == xv_server_stub && \
        (o)->close == xv_close_stub && (o)->cleanup == xv_cleanup_stub && (o)->accept == xv_accept_stub && (o)->send == xv_send_stub && \
        (o)->receive == xv_receive_stub && (o)->update == xv_update_stub && (o)->finish == xv_finish_stub && \
        ((o)->enable_ctl == NULL || (o)->enable_ctl == xv_enable_ctl_stub) && (o)->priv_size == xv_priv_size_stub)
#define PROTO_REQ(p) (__CPROVER_is_fresh((p), sizeof(struct xcm_tp_proto)) && __CPROVER_is_fresh((p)->ops, sizeof(struct xcm_tp_ops)) && \
                      OPS_ARE_STUBS((p)->ops))
/* a socket of some transport.  Representation invariant of the ctl poll counter: 0 <= skipped_ctl_calls <= 256
 * (established by xcm_tp_socket_create, kept by consider_ctl: proved below) */
#define SKIPPED_OK(s) ((s)->skipped_ctl_calls <= TP_MAX_SKIPPED)
#define SOCK_REQ(s) (__CPROVER_is_fresh((s), sizeof(struct xcm_socket)) && PROTO_REQ((s)->proto) && SKIPPED_OK(s))
/* the common header of the socket is not written, except ... */
#define HDR_SAME_BUT_CTL(s) (XV_SAME((s)->proto) && XV_SAME((s)->type) && XV_SAME((s)->sock_id) && XV_SAME((s)->auto_enable_ctl) && \
        XV_SAME((s)->auto_update) && XV_SAME((s)->is_blocking) && XV_SAME((s)->xpoll) && XV_SAME((s)->condition))
#define HDR_SAME(s) (HDR_SAME_BUT_CTL(s) && XV_SAME((s)->ctl) && XV_SAME((s)->skipped_ctl_calls))
#define G_BIND_CTL(s) (xv_g_ctl == ((s)->ctl != NULL) && xv_g_skipped == (s)->skipped_ctl_calls)
#define G_BIND_AUTO(s) (xv_g_auto_upd == ((s)->auto_update != 0) && xv_g_auto_ctl == ((s)->auto_enable_ctl != 0) && \
                        xv_g_own_en == ((s)->proto->ops->enable_ctl != NULL))
#define G_BIND(s) (G_BIND_CTL(s) && G_BIND_AUTO(s))
#define NO_CTLP (XV_SAME(xv_ctlp_calls) && XV_SAME(xv_ctlp_seq) && XV_SAME(xv_ctlp_arg))
#define NO_CTLC (XV_SAME(xv_ctlc_calls) && XV_SAME(xv_ctl_live) && XV_SAME(xv_en_calls))
#define NO_CTLD (XV_SAME(xv_ctld_calls) && XV_SAME(xv_ctl_live))
#define NO_UPD (XV_SAME(xv_upd_calls) && XV_SAME(xv_updt_calls))
#define NO_OP XV_SAME(xv_op_calls)
/* the ONE update() call made (it is the last call, tick xv_seq) was made on socket s: stated for the tracked socket xv_t,
 * i.e. for every socket -- it counts one more update if it is s, none otherwise */
#define UPDT_ONLY(s) (xv_t == (s) ? (XV_INC(xv_updt_calls) && xv_updt_seq == xv_seq) : XV_SAME(xv_updt_calls))

/* ---- do_ctl: poll the control interface now, if there is one -------------------------------------------------- */
static void do_ctl(struct xcm_socket *s)
__CPROVER_requires(__CPROVER_is_fresh(s, sizeof(*s)) && XV_TP_RANGE_IN && G_BIND_CTL(s))
__CPROVER_assigns(xv_seq, CTLP_ASSIGNS)
/* PO[C14] do_ctl.no_ctl_no_call */
__CPROVER_ensures(s->ctl == NULL ==> (XV_SAME(xv_seq) && NO_CTLP))
/* PO[C14] do_ctl.own_ctl_processed_once */
__CPROVER_ensures(s->ctl != NULL ==> (xv_seq == __CPROVER_old(xv_seq) + 1 && XV_INC(xv_ctlp_calls) && xv_ctlp_arg == s->ctl))
/* PO[C14] do_ctl.errno_untouched */
__CPROVER_ensures(XV_SAME(xv_errno) && HDR_SAME(s))
;

/* ---- consider_ctl: the rate at which the data path polls the control interface --------------------------------
 * A socket without control interface, or an operation that failed for good: nothing.  Otherwise the counter advances
 * by 1 (operation made progress) or by 64 (operation said EAGAIN: the application is about to sleep in poll) and the
 * control interface is processed -- and the counter reset -- exactly when the counter would exceed 256.  So at most 256
 * operations, or 4 wake-ups without progress (MAX_WAKEUPS_PER_CTL_CHECK), pass between two polls of the control
 * descriptors, and the counter never leaves 0..256 (no wrap-around of the uint64_t, ever). */
#define CTL_INC(temp) ((temp) ? TP_EAGAIN_WEIGHT : 1)
#define CTL_DUE(s, temp) (__CPROVER_old((s)->skipped_ctl_calls) + CTL_INC(temp) > TP_MAX_SKIPPED)
#define CTL_IDLE(s) (NO_CTLP && XV_SAME((s)->skipped_ctl_calls))
#define CTL_RAN(s) (XV_INC(xv_ctlp_calls) && xv_ctlp_arg == (s)->ctl && (s)->skipped_ctl_calls == 0)
#define CTL_SKIPPED(s, temp) (NO_CTLP && (s)->skipped_ctl_calls == __CPROVER_old((s)->skipped_ctl_calls) + CTL_INC(temp))
#define CTL_RATE(s, perm, temp) (((s)->ctl == NULL || (perm)) ? CTL_IDLE(s) : (CTL_DUE(s, temp) ? CTL_RAN(s) : CTL_SKIPPED(s, temp)))
/* did ctl_process run in this call? (0/1) */
#define CTL_N (xv_ctlp_calls - __CPROVER_old(xv_ctlp_calls))

static void consider_ctl(struct xcm_socket *s, bool permanently_failed_op, bool temporarly_failed_op)
__CPROVER_requires(__CPROVER_is_fresh(s, sizeof(*s)) && SKIPPED_OK(s) && XV_TP_RANGE_IN && G_BIND_CTL(s))
__CPROVER_assigns(xv_seq, CTLP_ASSIGNS, s->skipped_ctl_calls)
/* PO[C14] consider_ctl.rate: no ctl or permanent failure => nothing; else processed exactly when the counter would pass 256 */
__CPROVER_ensures(CTL_RATE(s, permanently_failed_op, temporarly_failed_op))
/* PO[C14] consider_ctl.counter_stays_in_range: the counter is in 0..256 again (invariant: no overflow, ever) */
__CPROVER_ensures(SKIPPED_OK(s))
/* PO[C14] consider_ctl.progress_towards_next_poll: either the control interface was processed or the counter grew */
__CPROVER_ensures((s->ctl != NULL && !permanently_failed_op) ==> (CTL_N == 1 || s->skipped_ctl_calls > __CPROVER_old(s->skipped_ctl_calls)))
/* PO[C14] consider_ctl.passive: errno, the rest of the socket and the transport are not touched */
__CPROVER_ensures(XV_SAME(xv_errno) && HDR_SAME_BUT_CTL(s) && XV_SAME(s->ctl) && xv_seq == __CPROVER_old(xv_seq) + CTL_N && (CTL_N == 0 || CTL_N == 1))
;

/* ---- xcm_tp_socket_update / init: the operation, nothing else --------------------------------------------------- */
void xcm_tp_socket_update(struct xcm_socket *s)
__CPROVER_requires(SOCK_REQ(s) && XV_TP_RANGE_IN)
__CPROVER_assigns(UPD_ASSIGNS)
/* PO[C04] xcm_tp_socket_update.reaches_the_transport: exactly one update() of this socket's transport, on this socket */
__CPROVER_ensures(xv_seq == __CPROVER_old(xv_seq) + 1 && XV_INC(xv_upd_calls) && xv_upd_seq == xv_seq && UPDT_ONLY(s))
__CPROVER_ensures(XV_SAME(xv_errno) && HDR_SAME(s))
;
int xcm_tp_socket_init(struct xcm_socket *s, struct xcm_socket *parent)
__CPROVER_requires(SOCK_REQ(s) && XV_TP_RANGE_IN)
__CPROVER_assigns(OP_ASSIGNS)
/* PO[C08] xcm_tp_socket_init.is_the_transports: one init(s, parent), its result and errno; nothing else runs */
__CPROVER_ensures(xv_seq == __CPROVER_old(xv_seq) + 1 && XV_INC(xv_op_calls) && xv_op_kind == XV_OP_INIT && xv_op_s == s && xv_op_a1 == parent && \
                  __CPROVER_return_value == xv_op_rv && xv_errno == xv_op_errno && HDR_SAME(s))
;

/* ---- xcm_tp_socket_enable_ctl ------------------------------------------------------------------------------------- */
#define HAS_EN(s) ((s)->proto->ops->enable_ctl != NULL)
/* the control interface of s was brought up by call number `n` (counted from the entry of the function under proof):
 * by the transport's own enable_ctl if it has one, else by ctl_create(s) whose result -- NULL included -- is s->ctl */
#define CTL_ENABLED_AT(s, n) (HAS_EN(s) \
        ? (XV_INC(xv_en_calls) && xv_en_s == (s) && xv_en_seq == __CPROVER_old(xv_seq) + (n) && XV_SAME(xv_ctlc_calls)) \
        : (XV_INC(xv_ctlc_calls) && xv_ctlc_sock == (s) && xv_ctlc_seq == __CPROVER_old(xv_seq) + (n) && (s)->ctl == xv_ctlc_ret && XV_SAME(xv_en_calls)))
#define CTL_LIVE_FOLLOWS(s) (xv_ctl_live == __CPROVER_old(xv_ctl_live) + ((s)->ctl != NULL ? 1 : 0))
/* typestate: a socket on which the control interface is still to be enabled automatically has none yet (else the
 * pointer to the old one would be overwritten: a leak) */
#define CTL_PENDING_OK(s) ((s)->auto_enable_ctl ==> (s)->ctl == NULL)

void xcm_tp_socket_enable_ctl(struct xcm_socket *s)
__CPROVER_requires(SOCK_REQ(s) && XV_TP_RANGE_IN && s->ctl == NULL && G_BIND(s))
__CPROVER_assigns(xv_errno, xv_seq, EN_ASSIGNS, CTLC_ASSIGNS, xv_ctl_live, s->ctl)
/* PO[C14,C08] xcm_tp_socket_enable_ctl.one_interface: one enable (transport's own, else ctl_create(s) stored in s->ctl); accounted */
__CPROVER_ensures(xv_seq == __CPROVER_old(xv_seq) + 1 && CTL_ENABLED_AT(s, 1) && CTL_LIVE_FOLLOWS(s))
__CPROVER_ensures(HDR_SAME_BUT_CTL(s) && XV_SAME(s->skipped_ctl_calls))
;

/* ---- xcm_tp_socket_connect / server ------------------------------------------------------------------------------
 * Order as coded: [ctl_process if a control interface exists] ; connect ; on success: [enable ctl if auto_enable_ctl] ;
 * [update if auto_update].  On failure NOTHING follows the operation: the transport has left the socket cleaned up
 * (xcm_tp.h:64-70: "close need not be called"), there is nothing to wake up for and nothing update() could register.
 * Sockets with auto_update == false are the sub-sockets of tcp/tls/utls, whose owner calls update itself. */
#define OLD_CTL_N(s) (__CPROVER_old((s)->ctl) != NULL ? 1 : 0)
#define AUTO_EN_N(s) ((s)->auto_enable_ctl ? 1 : 0)
#define AUTO_UPD_N(s) ((s)->auto_update ? 1 : 0)
#define CONNECT_REQ(s) \
__CPROVER_requires(SOCK_REQ(s) && XV_TP_RANGE_IN && CTL_PENDING_OK(s) && G_BIND(s)) \
__CPROVER_assigns(OP_ASSIGNS, UPD_ASSIGNS, EN_ASSIGNS, CTLP_ASSIGNS, CTLC_ASSIGNS, xv_ctl_live, (s)->ctl)
#define CONNECT_OP_ONCE(KIND, s, addr) \
__CPROVER_ensures(XV_INC(xv_op_calls) && xv_op_kind == (KIND) && xv_op_s == (s) && xv_op_a1 == (addr) && \
                  xv_op_seq == __CPROVER_old(xv_seq) + 1 + OLD_CTL_N(s) && __CPROVER_return_value == xv_op_rv)
#define CONNECT_FAILURE(s) \
__CPROVER_ensures(__CPROVER_return_value != 0 ==> (xv_errno == xv_op_errno && xv_seq == xv_op_seq && NO_UPD && NO_CTLC && XV_SAME((s)->ctl)))
#define CONNECT_SUCCESS_UPDATE(s) \
__CPROVER_ensures(__CPROVER_return_value == 0 ==> (xv_seq == xv_op_seq + AUTO_EN_N(s) + AUTO_UPD_N(s) && \
                  ((s)->auto_update ? (XV_INC(xv_upd_calls) && xv_upd_seq == xv_seq && UPDT_ONLY(s)) : NO_UPD)))
#define CONNECT_SUCCESS_ERRNO(s) \
__CPROVER_ensures((__CPROVER_return_value == 0 && !(s)->auto_enable_ctl) ==> xv_errno == xv_op_errno)
#define CONNECT_CTL_POLL(s) \
__CPROVER_ensures(__CPROVER_old((s)->ctl) != NULL ? (XV_INC(xv_ctlp_calls) && xv_ctlp_arg == __CPROVER_old((s)->ctl) && xv_ctlp_seq == __CPROVER_old(xv_seq) + 1) : NO_CTLP)
#define CONNECT_CTL_ENABLE(s) \
__CPROVER_ensures((__CPROVER_return_value == 0 && (s)->auto_enable_ctl) ? (CTL_ENABLED_AT(s, 2 + OLD_CTL_N(s)) && CTL_LIVE_FOLLOWS(s)) : (NO_CTLC && XV_SAME((s)->ctl)))
#define CONNECT_HDR(s) \
__CPROVER_ensures(HDR_SAME_BUT_CTL(s) && XV_SAME((s)->skipped_ctl_calls))

int xcm_tp_socket_connect(struct xcm_socket *s, const char *remote_addr)
CONNECT_REQ(s)
/* PO[C04] xcm_tp_socket_connect.op_once_rv_is_ops: one connect(s, remote_addr) of the transport, after the ctl poll; its result is returned */
CONNECT_OP_ONCE(XV_OP_CONNECT, s, remote_addr)
/* PO[C14,C08] xcm_tp_socket_connect.failure_errno_is_ops_socket_left_alone: nothing runs after a failed connect (no update, no ctl) */
CONNECT_FAILURE(s)
/* PO[C04] xcm_tp_socket_connect.success_update_is_last_call: auto_update => update(s) once, after the op and after the ctl was enabled; else none */
CONNECT_SUCCESS_UPDATE(s)
/* PO[C14] xcm_tp_socket_connect.success_errno_is_ops */
CONNECT_SUCCESS_ERRNO(s)
/* PO[C14] xcm_tp_socket_connect.ctl_polled_before_op_only: an existing control interface is processed once, BEFORE the operation */
CONNECT_CTL_POLL(s)
/* PO[C14,C08] xcm_tp_socket_connect.ctl_enabled_iff_success_and_auto */
CONNECT_CTL_ENABLE(s)
/* PO[C14] xcm_tp_socket_connect.header_untouched: but for s->ctl, no field of the socket header changes (poll counter included) */
CONNECT_HDR(s)
;
int xcm_tp_socket_server(struct xcm_socket *s, const char *local_addr)
CONNECT_REQ(s)
/* PO[C04] xcm_tp_socket_server.op_once_rv_is_ops */
CONNECT_OP_ONCE(XV_OP_SERVER, s, local_addr)
/* PO[C14,C08] xcm_tp_socket_server.failure_errno_is_ops_socket_left_alone */
CONNECT_FAILURE(s)
/* PO[C04] xcm_tp_socket_server.success_update_is_last_call */
CONNECT_SUCCESS_UPDATE(s)
/* PO[C14] xcm_tp_socket_server.success_errno_is_ops */
CONNECT_SUCCESS_ERRNO(s)
/* PO[C14] xcm_tp_socket_server.ctl_polled_before_op_only */
CONNECT_CTL_POLL(s)
/* PO[C14,C08] xcm_tp_socket_server.ctl_enabled_iff_success_and_auto */
CONNECT_CTL_ENABLE(s)
/* PO[C14] xcm_tp_socket_server.header_untouched: but for s->ctl, no field of the socket header changes (poll counter included) */
CONNECT_HDR(s)
;

/* ---- xcm_tp_socket_accept ------------------------------------------------------------------------------------------
 * Order as coded: accept(conn_s, server_s) ; on success: [enable ctl of conn_s if its auto_enable_ctl] ; [update conn_s if
 * its auto_update] ; consider_ctl(server_s) ; update(server_s) -- the last one UNCONDITIONALLY: whatever accept said and
 * whatever server_s->auto_update is, the listening socket is re-armed (another connection may be pending). */
#define ACC_OK (__CPROVER_return_value == 0)
#define ACC_PERM (__CPROVER_return_value < 0 && xv_op_errno != EAGAIN)
#define ACC_TEMP (__CPROVER_return_value < 0 && xv_op_errno == EAGAIN)
#define ACC_EN_N ((ACC_OK && conn_s->auto_enable_ctl) ? 1 : 0)
#define ACC_UPD_N ((ACC_OK && conn_s->auto_update) ? 1 : 0)
int xcm_tp_socket_accept(struct xcm_socket *conn_s, struct xcm_socket *server_s)
__CPROVER_requires(SOCK_REQ(conn_s) && SOCK_REQ(server_s) && XV_TP_RANGE_IN && CTL_PENDING_OK(conn_s) && G_BIND_AUTO(conn_s) && G_BIND_CTL(server_s))
__CPROVER_assigns(OP_ASSIGNS, UPD_ASSIGNS, EN_ASSIGNS, CTLP_ASSIGNS, CTLC_ASSIGNS, xv_ctl_live, conn_s->ctl, server_s->skipped_ctl_calls)
/* PO[C04] xcm_tp_socket_accept.op_first_once_rv_is_ops: the transport's accept(conn_s, server_s) is the first call, made once; its result is returned */
__CPROVER_ensures(XV_INC(xv_op_calls) && xv_op_kind == XV_OP_ACCEPT && xv_op_s == conn_s && xv_op_a1 == server_s && \
                  xv_op_seq == __CPROVER_old(xv_seq) + 1 && __CPROVER_return_value == xv_op_rv)
/* PO[C14] xcm_tp_socket_accept.failure_errno_is_ops: neither the control interface nor update changes errno of a failed accept (EAGAIN stays EAGAIN) */
__CPROVER_ensures((!ACC_OK || !conn_s->auto_enable_ctl) ==> xv_errno == xv_op_errno)
/* PO[C04] xcm_tp_socket_accept.server_update_is_last_call: success or failure, auto_update or not */
__CPROVER_ensures(xv_upd_seq == xv_seq && xv_seq == xv_op_seq + ACC_EN_N + ACC_UPD_N + CTL_N + 1 && \
                  xv_upd_calls == __CPROVER_old(xv_upd_calls) + ACC_UPD_N + 1)
/* PO[C04] xcm_tp_socket_accept.per_socket_updates: for EVERY socket xv_t: the server once, after everything; the new connection once iff accepted and auto_update, after its ctl was enabled; no other socket */
__CPROVER_ensures(xv_t == server_s ? (XV_INC(xv_updt_calls) && xv_updt_seq == xv_seq) : \
                  (xv_t == conn_s && ACC_UPD_N == 1) ? (XV_INC(xv_updt_calls) && xv_updt_seq == xv_op_seq + ACC_EN_N + 1) : XV_SAME(xv_updt_calls))
/* PO[C14] xcm_tp_socket_accept.server_ctl_rate: the SERVER's control interface is polled at the consider_ctl rate, after the accept and before the final update */
__CPROVER_ensures(CTL_RATE(server_s, ACC_PERM, ACC_TEMP) && SKIPPED_OK(server_s) && (CTL_N == 0 || (CTL_N == 1 && xv_ctlp_seq == xv_seq - 1)))
/* PO[C14,C08] xcm_tp_socket_accept.conn_ctl_enabled_iff_accepted_and_auto */
__CPROVER_ensures(ACC_EN_N == 1 ? (CTL_ENABLED_AT(conn_s, 2) && CTL_LIVE_FOLLOWS(conn_s)) : (NO_CTLC && XV_SAME(conn_s->ctl)))
__CPROVER_ensures(HDR_SAME_BUT_CTL(conn_s) && XV_SAME(conn_s->skipped_ctl_calls) && HDR_SAME_BUT_CTL(server_s) && XV_SAME(server_s->ctl))
;

/* ---- xcm_tp_socket_send / receive / finish ---------------------------------------------------------------------
 * Order as coded: the operation ; consider_ctl ; [update if auto_update].  PERM/TEMP: how consider_ctl is told about
 * the outcome (a receive of 0 = end of stream counts as final, too). */
#define IO_REQ(s) \
__CPROVER_requires(SOCK_REQ(s) && XV_TP_RANGE_IN && G_BIND(s)) \
__CPROVER_assigns(OP_ASSIGNS, UPD_ASSIGNS, CTLP_ASSIGNS, (s)->skipped_ctl_calls)
#define IO_OP_ONCE(KIND, s, a1, a2) \
__CPROVER_ensures(XV_INC(xv_op_calls) && xv_op_kind == (KIND) && xv_op_s == (s) && xv_op_a1 == (a1) && xv_op_a2 == (a2) && \
                  xv_op_seq == __CPROVER_old(xv_seq) + 1 && __CPROVER_return_value == xv_op_rv)
#define IO_ERRNO \
__CPROVER_ensures(xv_errno == xv_op_errno)
#define IO_UPDATE(s) \
__CPROVER_ensures(xv_seq == xv_op_seq + CTL_N + AUTO_UPD_N(s) && \
                  ((s)->auto_update ? (XV_INC(xv_upd_calls) && xv_upd_seq == xv_seq && UPDT_ONLY(s)) : NO_UPD))
#define IO_CTL(s, PERM, TEMP) \
__CPROVER_ensures(CTL_RATE(s, PERM, TEMP) && SKIPPED_OK(s) && (CTL_N == 0 || (CTL_N == 1 && xv_ctlp_seq == xv_op_seq + 1)))
#define IO_HDR(s) \
__CPROVER_ensures(HDR_SAME_BUT_CTL(s) && XV_SAME((s)->ctl))

#define IO_PERM (__CPROVER_return_value < 0 && xv_op_errno != EAGAIN)
#define IO_TEMP (__CPROVER_return_value < 0 && xv_op_errno == EAGAIN)
int xcm_tp_socket_send(struct xcm_socket *__restrict s, const void *__restrict buf, size_t len)
IO_REQ(s)
/* PO[C04] xcm_tp_socket_send.op_first_once_rv_is_ops: one send(s, buf, len) of the transport, first; its result is returned */
IO_OP_ONCE(XV_OP_SEND, s, buf, len)
/* PO[C14] xcm_tp_socket_send.errno_is_ops: control-interface work and update leave the operation's errno alone (EAGAIN stays EAGAIN) */
IO_ERRNO
/* PO[C04] xcm_tp_socket_send.update_is_last_call_iff_auto_update: success and failure alike */
IO_UPDATE(s)
/* PO[C14] xcm_tp_socket_send.ctl_rate_between_op_and_update */
IO_CTL(s, IO_PERM, IO_TEMP)
/* PO[C14] xcm_tp_socket_send.header_untouched: but for the poll counter, no field of the socket header changes */
IO_HDR(s)
;
/* (end of stream, 0, is final for the ctl counter like a hard error) */
int xcm_tp_socket_receive(struct xcm_socket *s, void *buf, size_t capacity)
IO_REQ(s)
/* PO[C04] xcm_tp_socket_receive.op_first_once_rv_is_ops */
IO_OP_ONCE(XV_OP_RECEIVE, s, buf, capacity)
/* PO[C14] xcm_tp_socket_receive.errno_is_ops */
IO_ERRNO
/* PO[C04] xcm_tp_socket_receive.update_is_last_call_iff_auto_update */
IO_UPDATE(s)
/* PO[C14] xcm_tp_socket_receive.ctl_rate_between_op_and_update */
IO_CTL(s, (__CPROVER_return_value == 0 || IO_PERM), IO_TEMP)
/* PO[C14] xcm_tp_socket_receive.header_untouched: but for the poll counter, no field of the socket header changes */
IO_HDR(s)
;
int xcm_tp_socket_finish(struct xcm_socket *s)
IO_REQ(s)
/* PO[C04] xcm_tp_socket_finish.op_first_once_rv_is_ops */
IO_OP_ONCE(XV_OP_FINISH, s, NULL, 0)
/* PO[C14] xcm_tp_socket_finish.errno_is_ops */
IO_ERRNO
/* PO[C04] xcm_tp_socket_finish.update_is_last_call_iff_auto_update */
IO_UPDATE(s)
/* PO[C14] xcm_tp_socket_finish.ctl_rate_between_op_and_update */
IO_CTL(s, IO_PERM, IO_TEMP)
/* PO[C14] xcm_tp_socket_finish.header_untouched: but for the poll counter, no field of the socket header changes */
IO_HDR(s)
;

/* ---- xcm_tp_socket_close / cleanup ---------------------------------------------------------------------------------
 * NULL: nothing.  Else: ctl_destroy(s->ctl, owner) FIRST (it deregisters from the socket's xpoll, which the transport's
 * close leaves alone and xcm.c destroys afterwards), then the transport's close/cleanup; owner == true for close (the
 * control socket file is unlinked), false for cleanup (a forked child must leave the owner's files alone). */
#define CLOSE_REQ(s) \
__CPROVER_requires((s) == NULL || (SOCK_REQ(s) && G_BIND(s))) \
__CPROVER_requires(XV_TP_RANGE_IN) \
__CPROVER_assigns(OP_ASSIGNS, CTLD_ASSIGNS, xv_ctl_live)
#define CLOSE_NULL(s) \
__CPROVER_ensures((s) == NULL ==> (XV_SAME(xv_seq) && NO_OP && NO_CTLD && XV_SAME(xv_errno)))
#define CLOSE_CTL(OWNER, s) \
__CPROVER_ensures((s) != NULL ==> (xv_seq == __CPROVER_old(xv_seq) + 2 && XV_INC(xv_ctld_calls) && xv_ctld_seq == __CPROVER_old(xv_seq) + 1 && \
                  xv_ctld_arg == (s)->ctl && xv_ctld_owner == (OWNER) && xv_ctl_live == __CPROVER_old(xv_ctl_live) - ((s)->ctl != NULL ? 1 : 0)))
#define CLOSE_OP(KIND, s) \
__CPROVER_ensures((s) != NULL ==> (XV_INC(xv_op_calls) && xv_op_kind == (KIND) && xv_op_s == (s) && xv_op_seq == xv_seq && xv_errno == xv_op_errno && HDR_SAME(s)))

void xcm_tp_socket_close(struct xcm_socket *s)
CLOSE_REQ(s)
/* PO[C08] xcm_tp_socket_close.null_is_noop */
CLOSE_NULL(s)
/* PO[C08,C14] xcm_tp_socket_close.ctl_destroyed_first_as_owner: the socket's control interface (if any) goes away with it, files unlinked */
CLOSE_CTL(1, s)
/* PO[C08] xcm_tp_socket_close.then_transport_close_once */
CLOSE_OP(XV_OP_CLOSE, s)
;
void xcm_tp_socket_cleanup(struct xcm_socket *s)
CLOSE_REQ(s)
/* PO[C08] xcm_tp_socket_cleanup.null_is_noop */
CLOSE_NULL(s)
/* PO[C08,C14] xcm_tp_socket_cleanup.ctl_destroyed_first_not_as_owner: owner == false reaches ctl_destroy (the owner's control files stay) */
CLOSE_CTL(0, s)
/* PO[C08] xcm_tp_socket_cleanup.then_transport_cleanup_once_not_close */
CLOSE_OP(XV_OP_CLEANUP, s)
;

/* ---- xcm_tp_socket_create / destroy ----------------------------------------------------------------------------- */
#define XV_U8P(p) ((const uint8_t *)(p))
struct xcm_socket *xcm_tp_socket_create(const struct xcm_tp_proto *proto, enum xcm_socket_type type, struct xpoll *xpoll,
                                        bool auto_enable_ctl, bool auto_update, bool is_blocking)
__CPROVER_requires(PROTO_REQ(proto) && XV_TP_RANGE_IN && xv_j >= 0)
__CPROVER_assigns(xv_seq, xv_ps_calls, xv_ps_arg, xv_ps_ret, xv_id_calls, xv_id_ret)
/* PO[C08] xcm_tp_socket_create.one_object_of_exact_size: a new heap object of sizeof(struct xcm_socket) + priv_size(type) bytes, priv_size asked once */
__CPROVER_ensures(__CPROVER_is_fresh(__CPROVER_return_value, sizeof(struct xcm_socket)) && __CPROVER_POINTER_OFFSET(__CPROVER_return_value) == 0 && \
                  __CPROVER_OBJECT_SIZE(__CPROVER_return_value) == sizeof(struct xcm_socket) + xv_ps_ret && \
                  XV_INC(xv_ps_calls) && xv_ps_arg == (int)type && xv_seq == __CPROVER_old(xv_seq) + 1)
/* PO[C08] xcm_tp_socket_create.arguments_stored */
__CPROVER_ensures(__CPROVER_return_value->proto == proto && __CPROVER_return_value->type == type && __CPROVER_return_value->xpoll == xpoll)
/* PO[C08] xcm_tp_socket_create.flags_stored */
__CPROVER_ensures(!__CPROVER_return_value->auto_enable_ctl == !auto_enable_ctl && !__CPROVER_return_value->auto_update == !auto_update && \
                  !__CPROVER_return_value->is_blocking == !is_blocking)
/* PO[C08] xcm_tp_socket_create.one_fresh_id */
__CPROVER_ensures(XV_INC(xv_id_calls) && __CPROVER_return_value->sock_id == xv_id_ret)
/* PO[C08,C14] xcm_tp_socket_create.no_condition_no_ctl_counter_zero: in particular NO control interface yet (destroy without close leaks none) */
__CPROVER_ensures(__CPROVER_return_value->condition == 0 && __CPROVER_return_value->ctl == NULL && __CPROVER_return_value->skipped_ctl_calls == 0)
/* PO[C08] xcm_tp_socket_create.private_area_zeroed: every byte (arbitrary index xv_j) of the transport's private area is 0 (the init ops rely on it) */
__CPROVER_ensures((size_t)xv_j < xv_ps_ret ==> XV_U8P(__CPROVER_return_value)[sizeof(struct xcm_socket) + (size_t)xv_j] == 0)
__CPROVER_ensures(XV_SAME(xv_errno))
;
/* destroy: frees the socket object, calls nobody (so it does NOT tear down a control interface: that is close/cleanup's
 * job, see job tpcore.lifecycle for the pairing) */
void xcm_tp_socket_destroy(struct xcm_socket *s)
__CPROVER_requires(s == NULL || __CPROVER_is_fresh(s, sizeof(struct xcm_socket)))
__CPROVER_requires(XV_TP_RANGE_IN)
__CPROVER_assigns()
__CPROVER_frees(s)
/* PO[C08] xcm_tp_socket_destroy.frees_the_object_calls_nobody */
__CPROVER_ensures((s != NULL ==> __CPROVER_was_freed(s)) && XV_SAME(xv_seq) && XV_SAME(xv_errno) && XV_SAME(xv_ctl_live))
;

#include "contracts/end.h"
#endif
