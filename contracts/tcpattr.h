/* contracts/tcpattr.h -- two small units that serve C11 and C10:
 *   XT_TCPATTR  libxcm/tp/tcp/tcp_attr.c     TCP option values: stored, range-checked, written to the descriptor (C11);
 *                                            tcp_info getters (C10)
 *   XT_TP       libxcm/tp/common/xcm_tp.c    the generic attribute getters every transport's getters end in (C10)
 * Attached to the REAL functions by redeclaration after the TU has been #included (harness/tcpattr/_unit*.h).
 * Ghost record of the setsockopt/getsockopt calls: env/sockopt.h.
 */
#ifndef XV_TCPATTR_H
#define XV_TCPATTR_H
#include "contracts/begin.h"

#define XV_CAP_MAX 2048          /* capacities above this are not explored (is_fresh needs a bound); stated in evidence */
#define XV_CALLS_MAX (1L << 40)  /* ghost call counters start below this */
/* the caller's buffer: a fresh object of EXACTLY `cap` bytes (one byte that must stay untouched when cap == 0).
 * XV_GUARD (default 0; job variants @guard use 16) appends guard bytes that are NOT in the assigns clause: a write past
 * `cap` is then a named assigns/postcondition failure instead of an out-of-bounds access -- CBMC 6.11 reports every
 * obligation behind a failed out-of-bounds check as UNKNOWN, which bin/xv turns into UNDECIDED. */
#ifndef XV_GUARD
#define XV_GUARD 0
#endif
#define XV_OBJ_SIZE(cap) (((cap) == 0 ? 1 : (cap)) + XV_GUARD)
#define XV_OUT(p, cap) __CPROVER_is_fresh((p), XV_OBJ_SIZE(cap))
#define XV_B(p) ((uint8_t *)(p))
#define XV_CB(p) ((const uint8_t *)(p))
/* xv_j: one arbitrary byte index inside the caller's buffer (never assigned => facts hold for every byte) */
#define XV_J_IN(cap) (xv_j >= 0 && (size_t)xv_j < XV_OBJ_SIZE(cap))

/* the getter vocabulary (C10): facts about buffer bytes are stated for the arbitrary index xv_j */
#define BUF_REQ(buf, capacity) ((capacity) <= XV_CAP_MAX && XV_OUT(buf, capacity) && XV_J_IN(capacity))
#define BUF_ASSIGNS(buf, capacity) (capacity) > 0: __CPROVER_object_upto((buf), (capacity))
#define BUF_SAME_J(buf) (XV_B(buf)[xv_j] == __CPROVER_old(XV_B(buf)[xv_j]))
#define OVERFLOW_UNTOUCHED(rv, buf) ((rv) == -1 && xv_errno == EOVERFLOW && BUF_SAME_J(buf))

/* ======================================================================================================= tcp_attr.c */
#ifdef XT_TCPATTR

/* ghost constants (never assigned): bound by requires clauses */
_Bool xv_g_inforce;      /* the value the struct holds for the option being set was in force on fd at entry */

#define SO_ASSIGNS xv_errno, xv_so_calls, xv_so_fails, xv_so_n, xv_so_fd, xv_so_val, xv_so_len, xv_so_rc, xv_so_ok_n, xv_so_ok_fd, xv_so_ok_val
#define SO_RANGE (xv_so_calls >= 0 && xv_so_calls < XV_CALLS_MAX && xv_so_fails >= 0 && xv_so_fails <= xv_so_calls && \
                  xv_so_n >= 0 && xv_so_n <= xv_so_calls && xv_so_ok_n >= 0 && xv_so_ok_n <= xv_so_n)
#define SO_IS(l, o) (xv_so_level == (l) && xv_so_opt == (o))
/* row of the tracked option unchanged / whole record unchanged (no setsockopt call was made) */
#define SO_ROW_SAME (xv_so_n == __CPROVER_old(xv_so_n) && xv_so_fd == __CPROVER_old(xv_so_fd) && xv_so_val == __CPROVER_old(xv_so_val) && \
                     xv_so_len == __CPROVER_old(xv_so_len) && xv_so_rc == __CPROVER_old(xv_so_rc) && xv_so_ok_n == __CPROVER_old(xv_so_ok_n) && \
                     xv_so_ok_fd == __CPROVER_old(xv_so_ok_fd) && xv_so_ok_val == __CPROVER_old(xv_so_ok_val))
#define SO_NO_CALL (xv_so_calls == __CPROVER_old(xv_so_calls) && xv_so_fails == __CPROVER_old(xv_so_fails) && SO_ROW_SAME)
/* option (l,o) was handed to setsockopt exactly once, on descriptor fd, as the int v */
#define SO_WRITTEN(l, o, fd, v) (SO_IS(l, o) ==> (xv_so_n == __CPROVER_old(xv_so_n) + 1 && xv_so_fd == (fd) && \
                                                  xv_so_len == sizeof(int) && xv_so_val == (v)))
/* ... and that call succeeded / failed */
#define SO_WRITTEN_OK(l, o, fd, v) (SO_WRITTEN(l, o, fd, v) && (SO_IS(l, o) ==> (xv_so_rc == 0 && xv_so_ok_n == __CPROVER_old(xv_so_ok_n) + 1)))
#define SO_WRITTEN_FAIL(l, o, fd, v) (SO_WRITTEN(l, o, fd, v) && (SO_IS(l, o) ==> (xv_so_rc == -1 && xv_so_ok_n == __CPROVER_old(xv_so_ok_n) && \
                                       xv_so_ok_fd == __CPROVER_old(xv_so_ok_fd) && xv_so_ok_val == __CPROVER_old(xv_so_ok_val))))
/* v is the value of option (l,o) in force on fd: the last successful setsockopt for the option was (fd, v) */
#define SO_INFORCE(l, o, fd, v) (SO_IS(l, o) ==> (xv_so_ok_n >= 1 && xv_so_ok_fd == (fd) && xv_so_ok_val == (v)))

/* admissible values: the kernel takes an int; the user timeout is given in s and handed down in ms */
#define ADM(v, k) ((v) >= 1 && (v) <= INT_MAX / (k))
#define OPTS_VALID(o) (ADM((o)->keepalive_time, 1) && ADM((o)->keepalive_interval, 1) && ADM((o)->keepalive_count, 1) && \
                       ADM((o)->user_timeout, 1000))

void tcp_opts_init(struct tcp_opts *opts)
__CPROVER_requires(__CPROVER_is_fresh(opts, sizeof(*opts)))
__CPROVER_assigns(__CPROVER_object_whole(opts))
/* PO[C11] tcp_opts_init.documented_defaults */
__CPROVER_ensures(opts->keepalive == 1 && opts->keepalive_time == 1 && opts->keepalive_interval == 1 && \
                  opts->keepalive_count == 3 && opts->user_timeout == 3 && OPTS_VALID(opts))
;

/* ---- tcp_set_<int64 option>: F field, L/O level and option, K scale (s -> kernel unit) */
#define SET_CONTRACT(F, L, O, K) \
__CPROVER_requires(__CPROVER_is_fresh(opts, sizeof(*opts)) && OPTS_VALID(opts) && SO_RANGE) \
__CPROVER_requires(xv_g_inforce == (SO_IS(L, O) ==> (xv_so_ok_n >= 1 && xv_so_ok_fd == fd && xv_so_ok_val == (int)(opts->F * (K))))) \
__CPROVER_assigns(opts->F, SO_ASSIGNS)

int tcp_set_keepalive_time(struct tcp_opts *opts, int fd, int64_t value)
SET_CONTRACT(keepalive_time, SOL_TCP, TCP_KEEPIDLE, 1) __CPROVER_requires(1) /* (keeps the PO-tag scan of bin/xv on this line) */
__CPROVER_ensures(__CPROVER_return_value == 0 || __CPROVER_return_value == -1)
/* PO[C11,C10] tcp_set_keepalive_time.inadmissible_rejected_nothing_changed */
__CPROVER_ensures(!ADM(value, 1) ==> (__CPROVER_return_value == -1 && xv_errno == EINVAL && opts->keepalive_time == __CPROVER_old(opts->keepalive_time) && SO_NO_CALL))
/* PO[C11] tcp_set_keepalive_time.accepted_is_stored */
__CPROVER_ensures(__CPROVER_return_value == 0 ==> (ADM(value, 1) && opts->keepalive_time == value))
/* PO[C11] tcp_set_keepalive_time.accepted_is_written_to_fd */
__CPROVER_ensures((__CPROVER_return_value == 0 && fd >= 0 && value != __CPROVER_old(opts->keepalive_time)) ==> (ADM(value, 1) && xv_so_calls == __CPROVER_old(xv_so_calls) + 1 && xv_so_fails == __CPROVER_old(xv_so_fails) && SO_WRITTEN_OK(SOL_TCP, TCP_KEEPIDLE, fd, (int)(value * 1))))
/* PO[C11] tcp_set_keepalive_time.accepted_is_in_force */
__CPROVER_ensures((__CPROVER_return_value == 0 && fd >= 0 && (xv_g_inforce || value != __CPROVER_old(opts->keepalive_time))) ==> (ADM(value, 1) && SO_INFORCE(SOL_TCP, TCP_KEEPIDLE, fd, (int)(value * 1))))
/* PO[C11,C10] tcp_set_keepalive_time.failure_changes_nothing */
__CPROVER_ensures(__CPROVER_return_value == -1 ==> opts->keepalive_time == __CPROVER_old(opts->keepalive_time))
/* PO[C11] tcp_set_keepalive_time.stored_value_admissible */
__CPROVER_ensures(OPTS_VALID(opts))
/* an admissible value fails only because the kernel refused it: one failed setsockopt for this option, errno the kernel's */
__CPROVER_ensures((__CPROVER_return_value == -1 && ADM(value, 1)) ==> (fd >= 0 && xv_errno > 0 && xv_so_calls == __CPROVER_old(xv_so_calls) + 1 && xv_so_fails == __CPROVER_old(xv_so_fails) + 1 && SO_WRITTEN_FAIL(SOL_TCP, TCP_KEEPIDLE, fd, (int)(value * 1))))
/* frame: no other option is touched; no descriptor or no change => no system call */
__CPROVER_ensures(!SO_IS(SOL_TCP, TCP_KEEPIDLE) ==> SO_ROW_SAME)
__CPROVER_ensures((fd < 0 || value == __CPROVER_old(opts->keepalive_time)) ==> SO_NO_CALL)
;

int tcp_set_keepalive_interval(struct tcp_opts *opts, int fd, int64_t value)
SET_CONTRACT(keepalive_interval, SOL_TCP, TCP_KEEPINTVL, 1) __CPROVER_requires(1) /* (keeps the PO-tag scan of bin/xv on this line) */
__CPROVER_ensures(__CPROVER_return_value == 0 || __CPROVER_return_value == -1)
/* PO[C11,C10] tcp_set_keepalive_interval.inadmissible_rejected_nothing_changed */
__CPROVER_ensures(!ADM(value, 1) ==> (__CPROVER_return_value == -1 && xv_errno == EINVAL && opts->keepalive_interval == __CPROVER_old(opts->keepalive_interval) && SO_NO_CALL))
/* PO[C11] tcp_set_keepalive_interval.accepted_is_stored */
__CPROVER_ensures(__CPROVER_return_value == 0 ==> (ADM(value, 1) && opts->keepalive_interval == value))
/* PO[C11] tcp_set_keepalive_interval.accepted_is_written_to_fd */
__CPROVER_ensures((__CPROVER_return_value == 0 && fd >= 0 && value != __CPROVER_old(opts->keepalive_interval)) ==> (ADM(value, 1) && xv_so_calls == __CPROVER_old(xv_so_calls) + 1 && xv_so_fails == __CPROVER_old(xv_so_fails) && SO_WRITTEN_OK(SOL_TCP, TCP_KEEPINTVL, fd, (int)(value * 1))))
/* PO[C11] tcp_set_keepalive_interval.accepted_is_in_force */
__CPROVER_ensures((__CPROVER_return_value == 0 && fd >= 0 && (xv_g_inforce || value != __CPROVER_old(opts->keepalive_interval))) ==> (ADM(value, 1) && SO_INFORCE(SOL_TCP, TCP_KEEPINTVL, fd, (int)(value * 1))))
/* PO[C11,C10] tcp_set_keepalive_interval.failure_changes_nothing */
__CPROVER_ensures(__CPROVER_return_value == -1 ==> opts->keepalive_interval == __CPROVER_old(opts->keepalive_interval))
/* PO[C11] tcp_set_keepalive_interval.stored_value_admissible */
__CPROVER_ensures(OPTS_VALID(opts))
__CPROVER_ensures((__CPROVER_return_value == -1 && ADM(value, 1)) ==> (fd >= 0 && xv_errno > 0 && xv_so_calls == __CPROVER_old(xv_so_calls) + 1 && xv_so_fails == __CPROVER_old(xv_so_fails) + 1 && SO_WRITTEN_FAIL(SOL_TCP, TCP_KEEPINTVL, fd, (int)(value * 1))))
__CPROVER_ensures(!SO_IS(SOL_TCP, TCP_KEEPINTVL) ==> SO_ROW_SAME)
__CPROVER_ensures((fd < 0 || value == __CPROVER_old(opts->keepalive_interval)) ==> SO_NO_CALL)
;

int tcp_set_keepalive_count(struct tcp_opts *opts, int fd, int64_t value)
SET_CONTRACT(keepalive_count, SOL_TCP, TCP_KEEPCNT, 1) __CPROVER_requires(1) /* (keeps the PO-tag scan of bin/xv on this line) */
__CPROVER_ensures(__CPROVER_return_value == 0 || __CPROVER_return_value == -1)
/* PO[C11,C10] tcp_set_keepalive_count.inadmissible_rejected_nothing_changed */
__CPROVER_ensures(!ADM(value, 1) ==> (__CPROVER_return_value == -1 && xv_errno == EINVAL && opts->keepalive_count == __CPROVER_old(opts->keepalive_count) && SO_NO_CALL))
/* PO[C11] tcp_set_keepalive_count.accepted_is_stored */
__CPROVER_ensures(__CPROVER_return_value == 0 ==> (ADM(value, 1) && opts->keepalive_count == value))
/* PO[C11] tcp_set_keepalive_count.accepted_is_written_to_fd */
__CPROVER_ensures((__CPROVER_return_value == 0 && fd >= 0 && value != __CPROVER_old(opts->keepalive_count)) ==> (ADM(value, 1) && xv_so_calls == __CPROVER_old(xv_so_calls) + 1 && xv_so_fails == __CPROVER_old(xv_so_fails) && SO_WRITTEN_OK(SOL_TCP, TCP_KEEPCNT, fd, (int)(value * 1))))
/* PO[C11] tcp_set_keepalive_count.accepted_is_in_force */
__CPROVER_ensures((__CPROVER_return_value == 0 && fd >= 0 && (xv_g_inforce || value != __CPROVER_old(opts->keepalive_count))) ==> (ADM(value, 1) && SO_INFORCE(SOL_TCP, TCP_KEEPCNT, fd, (int)(value * 1))))
/* PO[C11,C10] tcp_set_keepalive_count.failure_changes_nothing */
__CPROVER_ensures(__CPROVER_return_value == -1 ==> opts->keepalive_count == __CPROVER_old(opts->keepalive_count))
/* PO[C11] tcp_set_keepalive_count.stored_value_admissible */
__CPROVER_ensures(OPTS_VALID(opts))
__CPROVER_ensures((__CPROVER_return_value == -1 && ADM(value, 1)) ==> (fd >= 0 && xv_errno > 0 && xv_so_calls == __CPROVER_old(xv_so_calls) + 1 && xv_so_fails == __CPROVER_old(xv_so_fails) + 1 && SO_WRITTEN_FAIL(SOL_TCP, TCP_KEEPCNT, fd, (int)(value * 1))))
__CPROVER_ensures(!SO_IS(SOL_TCP, TCP_KEEPCNT) ==> SO_ROW_SAME)
__CPROVER_ensures((fd < 0 || value == __CPROVER_old(opts->keepalive_count)) ==> SO_NO_CALL)
;

/* tcp.user_timeout is given in seconds and handed to the kernel in milliseconds: admissible 1 .. INT_MAX/1000 */
int tcp_set_user_timeout(struct tcp_opts *opts, int fd, int64_t value)
SET_CONTRACT(user_timeout, SOL_TCP, TCP_USER_TIMEOUT, 1000) __CPROVER_requires(1) /* (keeps the PO-tag scan of bin/xv on this line) */
__CPROVER_ensures(__CPROVER_return_value == 0 || __CPROVER_return_value == -1)
/* PO[C11,C10] tcp_set_user_timeout.inadmissible_rejected_nothing_changed */
__CPROVER_ensures(!ADM(value, 1000) ==> (__CPROVER_return_value == -1 && xv_errno == EINVAL && opts->user_timeout == __CPROVER_old(opts->user_timeout) && SO_NO_CALL))
/* PO[C11] tcp_set_user_timeout.accepted_is_stored */
__CPROVER_ensures(__CPROVER_return_value == 0 ==> (ADM(value, 1000) && opts->user_timeout == value))
/* PO[C11] tcp_set_user_timeout.accepted_is_written_to_fd */
__CPROVER_ensures((__CPROVER_return_value == 0 && fd >= 0 && value != __CPROVER_old(opts->user_timeout)) ==> (ADM(value, 1000) && xv_so_calls == __CPROVER_old(xv_so_calls) + 1 && xv_so_fails == __CPROVER_old(xv_so_fails) && SO_WRITTEN_OK(SOL_TCP, TCP_USER_TIMEOUT, fd, (int)(value * 1000))))
/* PO[C11] tcp_set_user_timeout.accepted_is_in_force */
__CPROVER_ensures((__CPROVER_return_value == 0 && fd >= 0 && (xv_g_inforce || value != __CPROVER_old(opts->user_timeout))) ==> (ADM(value, 1000) && SO_INFORCE(SOL_TCP, TCP_USER_TIMEOUT, fd, (int)(value * 1000))))
/* PO[C11,C10] tcp_set_user_timeout.failure_changes_nothing */
__CPROVER_ensures(__CPROVER_return_value == -1 ==> opts->user_timeout == __CPROVER_old(opts->user_timeout))
/* PO[C11] tcp_set_user_timeout.stored_value_admissible */
__CPROVER_ensures(OPTS_VALID(opts))
__CPROVER_ensures((__CPROVER_return_value == -1 && ADM(value, 1000)) ==> (fd >= 0 && xv_errno > 0 && xv_so_calls == __CPROVER_old(xv_so_calls) + 1 && xv_so_fails == __CPROVER_old(xv_so_fails) + 1 && SO_WRITTEN_FAIL(SOL_TCP, TCP_USER_TIMEOUT, fd, (int)(value * 1000))))
__CPROVER_ensures(!SO_IS(SOL_TCP, TCP_USER_TIMEOUT) ==> SO_ROW_SAME)
__CPROVER_ensures((fd < 0 || value == __CPROVER_old(opts->user_timeout)) ==> SO_NO_CALL)
;

/* tcp.keepalive: every bool is admissible */
int tcp_set_keepalive(struct tcp_opts *opts, int fd, bool keepalive)
__CPROVER_requires(__CPROVER_is_fresh(opts, sizeof(*opts)) && OPTS_VALID(opts) && SO_RANGE)
__CPROVER_requires(xv_g_inforce == (SO_IS(SOL_SOCKET, SO_KEEPALIVE) ==> (xv_so_ok_n >= 1 && xv_so_ok_fd == fd && xv_so_ok_val == (int)opts->keepalive)))
__CPROVER_assigns(opts->keepalive, SO_ASSIGNS)
__CPROVER_ensures(__CPROVER_return_value == 0 || __CPROVER_return_value == -1)
/* PO[C11] tcp_set_keepalive.accepted_is_stored */
__CPROVER_ensures(__CPROVER_return_value == 0 ==> opts->keepalive == keepalive)
/* PO[C11] tcp_set_keepalive.accepted_is_written_to_fd */
__CPROVER_ensures((__CPROVER_return_value == 0 && fd >= 0 && keepalive != __CPROVER_old(opts->keepalive)) ==> (xv_so_calls == __CPROVER_old(xv_so_calls) + 1 && xv_so_fails == __CPROVER_old(xv_so_fails) && SO_WRITTEN_OK(SOL_SOCKET, SO_KEEPALIVE, fd, (int)keepalive)))
/* PO[C11] tcp_set_keepalive.accepted_is_in_force */
__CPROVER_ensures((__CPROVER_return_value == 0 && fd >= 0 && (xv_g_inforce || keepalive != __CPROVER_old(opts->keepalive))) ==> SO_INFORCE(SOL_SOCKET, SO_KEEPALIVE, fd, (int)keepalive))
/* PO[C11,C10] tcp_set_keepalive.failure_changes_nothing */
__CPROVER_ensures(__CPROVER_return_value == -1 ==> opts->keepalive == __CPROVER_old(opts->keepalive))
__CPROVER_ensures(__CPROVER_return_value == -1 ==> (fd >= 0 && xv_errno > 0 && xv_so_calls == __CPROVER_old(xv_so_calls) + 1 && xv_so_fails == __CPROVER_old(xv_so_fails) + 1 && SO_WRITTEN_FAIL(SOL_SOCKET, SO_KEEPALIVE, fd, (int)keepalive)))
__CPROVER_ensures(!SO_IS(SOL_SOCKET, SO_KEEPALIVE) ==> SO_ROW_SAME)
__CPROVER_ensures((fd < 0 || keepalive == __CPROVER_old(opts->keepalive)) ==> SO_NO_CALL)
;

/* ---- tcp_opts_effectuate: EVERY option of the struct (and the fixed ones: no Nagle, 3 SYN retransmits, DSCP 40) is
 * written to fd exactly once, whatever the outcome of the others; success only if the kernel accepted them all */
#define XV_TOS (XCM_IP_DSCP << 2)
#define EFF_LISTED (SO_IS(SOL_TCP, TCP_NODELAY) || SO_IS(SOL_TCP, TCP_SYNCNT) || SO_IS(SOL_TCP, TCP_KEEPIDLE) || SO_IS(SOL_TCP, TCP_KEEPINTVL) || \
                    SO_IS(SOL_TCP, TCP_KEEPCNT) || SO_IS(SOL_SOCKET, SO_KEEPALIVE) || SO_IS(SOL_TCP, TCP_USER_TIMEOUT) || \
                    SO_IS(SOL_IP, IP_TOS) || SO_IS(SOL_IPV6, IPV6_TCLASS))
int tcp_opts_effectuate(struct tcp_opts *opts, int fd)
__CPROVER_requires(__CPROVER_is_fresh(opts, sizeof(*opts)) && OPTS_VALID(opts) && SO_RANGE)
__CPROVER_requires(xv_gsn_calls >= 0 && xv_gsn_calls < XV_CALLS_MAX && xv_gsn_fails >= 0 && xv_gsn_fails <= xv_gsn_calls)
/* the descriptor is an IP socket (every caller hands in a socket it created with AF_INET or AF_INET6) */
__CPROVER_requires(xv_fd_family == AF_INET || xv_fd_family == AF_INET6)
__CPROVER_assigns(SO_ASSIGNS, xv_gsn_calls, xv_gsn_fails)
__CPROVER_ensures(__CPROVER_return_value == 0 || __CPROVER_return_value == -1)
/* PO[C11] tcp_opts_effectuate.every_option_written */
__CPROVER_ensures(SO_WRITTEN(SOL_TCP, TCP_KEEPIDLE, fd, (int)opts->keepalive_time) && SO_WRITTEN(SOL_TCP, TCP_KEEPINTVL, fd, (int)opts->keepalive_interval) && \
                  SO_WRITTEN(SOL_TCP, TCP_KEEPCNT, fd, (int)opts->keepalive_count) && SO_WRITTEN(SOL_SOCKET, SO_KEEPALIVE, fd, (int)opts->keepalive) && \
                  SO_WRITTEN(SOL_TCP, TCP_USER_TIMEOUT, fd, (int)(opts->user_timeout * 1000)))
/* PO[C11] tcp_opts_effectuate.fixed_options_written */
__CPROVER_ensures(SO_WRITTEN(SOL_TCP, TCP_NODELAY, fd, 1) && SO_WRITTEN(SOL_TCP, TCP_SYNCNT, fd, XCM_TCP_MAX_SYN_RETRANSMITS) && \
                  (xv_gsn_fails == __CPROVER_old(xv_gsn_fails) ==> ((xv_fd_family == AF_INET ==> SO_WRITTEN(SOL_IP, IP_TOS, fd, XV_TOS)) && \
                                                                   (xv_fd_family == AF_INET6 ==> SO_WRITTEN(SOL_IPV6, IPV6_TCLASS, fd, XV_TOS)))))
/* PO[C11] tcp_opts_effectuate.success_means_all_in_force */
__CPROVER_ensures(__CPROVER_return_value == 0 ==> (xv_so_fails == __CPROVER_old(xv_so_fails) && xv_gsn_fails == __CPROVER_old(xv_gsn_fails) && \
                  SO_INFORCE(SOL_TCP, TCP_KEEPIDLE, fd, (int)opts->keepalive_time) && SO_INFORCE(SOL_TCP, TCP_KEEPINTVL, fd, (int)opts->keepalive_interval) && \
                  SO_INFORCE(SOL_TCP, TCP_KEEPCNT, fd, (int)opts->keepalive_count) && SO_INFORCE(SOL_SOCKET, SO_KEEPALIVE, fd, (int)opts->keepalive) && \
                  SO_INFORCE(SOL_TCP, TCP_USER_TIMEOUT, fd, (int)(opts->user_timeout * 1000)) && \
                  SO_INFORCE(SOL_TCP, TCP_NODELAY, fd, 1) && SO_INFORCE(SOL_TCP, TCP_SYNCNT, fd, XCM_TCP_MAX_SYN_RETRANSMITS) && \
                  (xv_fd_family == AF_INET ==> SO_INFORCE(SOL_IP, IP_TOS, fd, XV_TOS)) && (xv_fd_family == AF_INET6 ==> SO_INFORCE(SOL_IPV6, IPV6_TCLASS, fd, XV_TOS))))
/* PO[C11] tcp_opts_effectuate.failure_reported */
__CPROVER_ensures(__CPROVER_return_value == -1 ==> (xv_so_fails > __CPROVER_old(xv_so_fails) || xv_gsn_fails > __CPROVER_old(xv_gsn_fails)))
/* exactly these calls: 7 options + the DSCP one when the family could be read; nothing else is touched */
__CPROVER_ensures(xv_gsn_calls == __CPROVER_old(xv_gsn_calls) + 1 && \
                  xv_so_calls == __CPROVER_old(xv_so_calls) + (xv_gsn_fails == __CPROVER_old(xv_gsn_fails) ? 8 : 7))
__CPROVER_ensures(!EFF_LISTED ==> SO_ROW_SAME)
;

/* == must be field-wise equality of ALL five fields: try_finish_connect() re-applies the options to the new descriptor
 * only if this says that they changed while the connection was being established.  Both structs hold admissible values
 * (they come from tcp_opts_init and the setters above). */
#define OPTS_FIELDWISE_EQ(a, b) ((a)->keepalive == (b)->keepalive && (a)->keepalive_time == (b)->keepalive_time && \
                  (a)->keepalive_interval == (b)->keepalive_interval && (a)->keepalive_count == (b)->keepalive_count && \
                  (a)->user_timeout == (b)->user_timeout)
bool tcp_opts_equal(const struct tcp_opts *opts_a, const struct tcp_opts *opts_b)
__CPROVER_requires(__CPROVER_is_fresh(opts_a, sizeof(*opts_a)) && __CPROVER_is_fresh(opts_b, sizeof(*opts_b)) && OPTS_VALID(opts_a) && OPTS_VALID(opts_b))
__CPROVER_assigns()
/* PO[C11] tcp_opts_equal.true_only_if_all_fields_equal */
__CPROVER_ensures(__CPROVER_return_value ==> OPTS_FIELDWISE_EQ(opts_a, opts_b))
/* PO[C11] tcp_opts_equal.true_if_all_fields_equal */
__CPROVER_ensures(OPTS_FIELDWISE_EQ(opts_a, opts_b) ==> __CPROVER_return_value)
;

/* ---- tcp_get_<field>_attr(fd, value): there is NO capacity parameter: the function writes sizeof(int64_t) bytes, so
 * `value` must be an object of at least 8 bytes (the contract offers exactly 8): callers with a smaller buffer must not
 * call it (obligation of GEN_TCP_FIELD_GET in xcm_tp_btcp.c, job tcpattr.btcp_field_get) */
#define GSO_ASSIGNS xv_errno, xv_gso_calls, xv_gso_fd, xv_gso_level, xv_gso_opt, xv_gso_rc, xv_gso_cap, xv_gso_len, xv_gso_u32, xv_gso_u32_set
#define INFO_END(f) (offsetof(struct tcp_info_4_3, f) + sizeof(uint32_t))
#define INFO_GET_CONTRACT(f) \
__CPROVER_requires(__CPROVER_is_fresh(value, sizeof(int64_t)) && xv_gso_calls >= 0 && xv_gso_calls < XV_CALLS_MAX) \
__CPROVER_assigns(*value, GSO_ASSIGNS) \
__CPROVER_ensures(__CPROVER_return_value == (int)sizeof(int64_t) || __CPROVER_return_value == -1) \
__CPROVER_ensures(xv_gso_calls == __CPROVER_old(xv_gso_calls) + 1 && xv_gso_fd == fd && xv_gso_level == SOL_TCP && xv_gso_opt == TCP_INFO && \
                  xv_gso_cap == sizeof(struct tcp_info_4_3)) \
__CPROVER_ensures(__CPROVER_return_value == (int)sizeof(int64_t) <==> (xv_gso_rc == 0 && xv_gso_len >= INFO_END(f)))

int tcp_get_rtt_attr(int fd, int64_t *value)
INFO_GET_CONTRACT(tcpi_rtt) __CPROVER_requires(1)
/* PO[C10] tcp_get_rtt_attr.reports_the_kernel_field */
__CPROVER_ensures((__CPROVER_return_value == (int)sizeof(int64_t) && xv_gso_off == offsetof(struct tcp_info_4_3, tcpi_rtt)) ==> (xv_gso_u32_set && *value == (int64_t)xv_gso_u32))
/* PO[C10] tcp_get_rtt_attr.failure_leaves_buffer */
__CPROVER_ensures(__CPROVER_return_value == -1 ==> (*value == __CPROVER_old(*value) && xv_errno > 0 && (xv_gso_rc == 0 ==> xv_errno == ENOENT)))
;
int tcp_get_total_retrans_attr(int fd, int64_t *value)
INFO_GET_CONTRACT(tcpi_total_retrans) __CPROVER_requires(1)
/* PO[C10] tcp_get_total_retrans_attr.reports_the_kernel_field */
__CPROVER_ensures((__CPROVER_return_value == (int)sizeof(int64_t) && xv_gso_off == offsetof(struct tcp_info_4_3, tcpi_total_retrans)) ==> (xv_gso_u32_set && *value == (int64_t)xv_gso_u32))
/* PO[C10] tcp_get_total_retrans_attr.failure_leaves_buffer */
__CPROVER_ensures(__CPROVER_return_value == -1 ==> (*value == __CPROVER_old(*value) && xv_errno > 0 && (xv_gso_rc == 0 ==> xv_errno == ENOENT)))
;
int tcp_get_segs_in_attr(int fd, int64_t *value)
INFO_GET_CONTRACT(tcpi_segs_in) __CPROVER_requires(1)
/* PO[C10] tcp_get_segs_in_attr.reports_the_kernel_field */
__CPROVER_ensures((__CPROVER_return_value == (int)sizeof(int64_t) && xv_gso_off == offsetof(struct tcp_info_4_3, tcpi_segs_in)) ==> (xv_gso_u32_set && *value == (int64_t)xv_gso_u32))
/* PO[C10] tcp_get_segs_in_attr.failure_leaves_buffer */
__CPROVER_ensures(__CPROVER_return_value == -1 ==> (*value == __CPROVER_old(*value) && xv_errno > 0 && (xv_gso_rc == 0 ==> xv_errno == ENOENT)))
;
int tcp_get_segs_out_attr(int fd, int64_t *value)
INFO_GET_CONTRACT(tcpi_segs_out) __CPROVER_requires(1)
/* PO[C10] tcp_get_segs_out_attr.reports_the_kernel_field */
__CPROVER_ensures((__CPROVER_return_value == (int)sizeof(int64_t) && xv_gso_off == offsetof(struct tcp_info_4_3, tcpi_segs_out)) ==> (xv_gso_u32_set && *value == (int64_t)xv_gso_u32))
/* PO[C10] tcp_get_segs_out_attr.failure_leaves_buffer */
__CPROVER_ensures(__CPROVER_return_value == -1 ==> (*value == __CPROVER_old(*value) && xv_errno > 0 && (xv_gso_rc == 0 ==> xv_errno == ENOENT)))
;
#endif /* XT_TCPATTR */


/* ======================================================================================================== xcm_tp.c */
#ifdef XT_TP
/* The helpers every attribute getter ends in.  C10: never more than `capacity` bytes written into the caller's buffer
 * (assigns clause: the buffer is an object of EXACTLY `capacity` bytes, so one byte too many is also a bounds
 * violation), the result is the number of bytes written, a value that does not fit gives -1/EOVERFLOW with the
 * buffer untouched.  Facts about buffer bytes are stated for the arbitrary index xv_j. */
/* strings of up to 7 characters (the string loops are closed by unwinding; capacity is unrestricted up to XV_CAP_MAX) */
#define XV_STRLEN8(v) ((v)[0] == 0 ? 0 : (v)[1] == 0 ? 1 : (v)[2] == 0 ? 2 : (v)[3] == 0 ? 3 : (v)[4] == 0 ? 4 : (v)[5] == 0 ? 5 : (v)[6] == 0 ? 6 : 7)
int xcm_tp_get_str_attr(const char *value, void *buf, size_t capacity)
__CPROVER_requires(BUF_REQ(buf, capacity) && __CPROVER_is_fresh(value, 8) && value[7] == 0)
__CPROVER_assigns(xv_errno)
__CPROVER_assigns(BUF_ASSIGNS(buf, capacity))
/* PO[C10] xcm_tp_get_str_attr.success_iff_it_fits */
__CPROVER_ensures((size_t)XV_STRLEN8(value) + 1 <= capacity ? __CPROVER_return_value == XV_STRLEN8(value) + 1 : __CPROVER_return_value == -1)
/* PO[C10] xcm_tp_get_str_attr.returns_bytes_written */
__CPROVER_ensures(__CPROVER_return_value >= 0 ==> ((size_t)__CPROVER_return_value <= capacity && \
                  (xv_j < __CPROVER_return_value ? XV_B(buf)[xv_j] == XV_CB(value)[xv_j] : BUF_SAME_J(buf))))
/* PO[C10] xcm_tp_get_str_attr.overflow_leaves_buffer */
__CPROVER_ensures(__CPROVER_return_value < 0 ==> OVERFLOW_UNTOUCHED(__CPROVER_return_value, buf))
;

int xcm_tp_get_bin_attr(const char *value, size_t len, void *buf, size_t capacity)
__CPROVER_requires(BUF_REQ(buf, capacity) && len <= XV_CAP_MAX + 8 && XV_OUT(value, len) && xv_mc == (size_t)xv_j)
__CPROVER_assigns(xv_errno)
__CPROVER_assigns(BUF_ASSIGNS(buf, capacity))
/* PO[C10] xcm_tp_get_bin_attr.success_iff_it_fits */
__CPROVER_ensures(len <= capacity ? __CPROVER_return_value == (int)len : __CPROVER_return_value == -1)
/* PO[C10] xcm_tp_get_bin_attr.returns_bytes_written */
__CPROVER_ensures(__CPROVER_return_value >= 0 ==> ((size_t)__CPROVER_return_value <= capacity && \
                  (xv_j < __CPROVER_return_value ? XV_B(buf)[xv_j] == XV_CB(value)[xv_j] : BUF_SAME_J(buf))))
/* PO[C10] xcm_tp_get_bin_attr.overflow_leaves_buffer */
__CPROVER_ensures(__CPROVER_return_value < 0 ==> OVERFLOW_UNTOUCHED(__CPROVER_return_value, buf))
;

int xcm_tp_get_bool_attr(bool value, void *buf, size_t capacity)
__CPROVER_requires(BUF_REQ(buf, capacity))
__CPROVER_assigns(xv_errno)
__CPROVER_assigns(BUF_ASSIGNS(buf, capacity))
/* PO[C10] xcm_tp_get_bool_attr.success_iff_it_fits */
__CPROVER_ensures(sizeof(bool) <= capacity ? __CPROVER_return_value == (int)sizeof(bool) : __CPROVER_return_value == -1)
/* PO[C10] xcm_tp_get_bool_attr.returns_bytes_written */
__CPROVER_ensures(__CPROVER_return_value >= 0 ==> ((size_t)__CPROVER_return_value <= capacity && \
                  (xv_j < __CPROVER_return_value ? XV_B(buf)[xv_j] == (uint8_t)value : BUF_SAME_J(buf))))
/* PO[C10] xcm_tp_get_bool_attr.overflow_leaves_buffer */
__CPROVER_ensures(__CPROVER_return_value < 0 ==> OVERFLOW_UNTOUCHED(__CPROVER_return_value, buf))
;

int xcm_tp_get_double_attr(double value, void *buf, size_t capacity)
__CPROVER_requires(BUF_REQ(buf, capacity))
__CPROVER_assigns(xv_errno)
__CPROVER_assigns(BUF_ASSIGNS(buf, capacity))
/* PO[C10] xcm_tp_get_double_attr.success_iff_it_fits */
__CPROVER_ensures(sizeof(double) <= capacity ? __CPROVER_return_value == (int)sizeof(double) : __CPROVER_return_value == -1)
/* PO[C10] xcm_tp_get_double_attr.returns_bytes_written */
__CPROVER_ensures(__CPROVER_return_value >= 0 ==> ((size_t)__CPROVER_return_value <= capacity && \
                  (xv_j < __CPROVER_return_value ? XV_B(buf)[xv_j] == XV_CB(&value)[xv_j] : BUF_SAME_J(buf))))
/* PO[C10] xcm_tp_get_double_attr.overflow_leaves_buffer */
__CPROVER_ensures(__CPROVER_return_value < 0 ==> OVERFLOW_UNTOUCHED(__CPROVER_return_value, buf))
;

/* ---- the counter getters (GEN_CNT_ATTR_GETTER): the transport's get_cnt is behind an ops table; cut at the wrapper */
int64_t xv_cnt_ret; int xv_cnt_arg; const struct xcm_socket *xv_cnt_s; long xv_cnt_calls;
int64_t xcm_tp_socket_get_cnt(struct xcm_socket *conn_s, enum xcm_tp_cnt cnt)
__CPROVER_requires(xv_cnt_calls >= 0 && xv_cnt_calls < XV_CALLS_MAX)
__CPROVER_assigns(xv_cnt_ret, xv_cnt_arg, xv_cnt_s, xv_cnt_calls)
__CPROVER_ensures(__CPROVER_return_value == xv_cnt_ret && xv_cnt_arg == (int)cnt && xv_cnt_s == conn_s && xv_cnt_calls == __CPROVER_old(xv_cnt_calls) + 1)
;
#define CNT_GETTER_CONTRACT(name) \
static int get_ ## name ## _attr(struct xcm_socket *s, void *context, void *value, size_t capacity) \
__CPROVER_requires(BUF_REQ(value, capacity) && __CPROVER_is_fresh(s, sizeof(*s)) && xv_cnt_calls >= 0 && xv_cnt_calls < XV_CALLS_MAX) \
__CPROVER_assigns(xv_errno, xv_cnt_ret, xv_cnt_arg, xv_cnt_s, xv_cnt_calls) \
__CPROVER_assigns(BUF_ASSIGNS(value, capacity)) \
__CPROVER_ensures(sizeof(int64_t) <= capacity ? __CPROVER_return_value == (int)sizeof(int64_t) : __CPROVER_return_value == -1) \
__CPROVER_ensures(__CPROVER_return_value >= 0 ==> ((size_t)__CPROVER_return_value <= capacity && \
                  xv_cnt_calls == __CPROVER_old(xv_cnt_calls) + 1 && xv_cnt_s == s && xv_cnt_arg == (int)xcm_tp_cnt_ ## name && \
                  *(int64_t *)value == xv_cnt_ret && (xv_j >= __CPROVER_return_value ==> BUF_SAME_J(value)))) \
__CPROVER_ensures(__CPROVER_return_value < 0 ==> (OVERFLOW_UNTOUCHED(__CPROVER_return_value, value) && xv_cnt_calls == __CPROVER_old(xv_cnt_calls))) \
;
/* PO[C10] get_to_app_bytes_attr.capacity_respected_value_reported */
CNT_GETTER_CONTRACT(to_app_bytes)
/* PO[C10] get_from_app_bytes_attr.capacity_respected_value_reported */
CNT_GETTER_CONTRACT(from_app_bytes)
/* PO[C10] get_to_lower_bytes_attr.capacity_respected_value_reported */
CNT_GETTER_CONTRACT(to_lower_bytes)
/* PO[C10] get_from_lower_bytes_attr.capacity_respected_value_reported */
CNT_GETTER_CONTRACT(from_lower_bytes)
/* PO[C10] get_to_app_msgs_attr.capacity_respected_value_reported */
CNT_GETTER_CONTRACT(to_app_msgs)
/* PO[C10] get_from_app_msgs_attr.capacity_respected_value_reported */
CNT_GETTER_CONTRACT(from_app_msgs)
/* PO[C10] get_to_lower_msgs_attr.capacity_respected_value_reported */
CNT_GETTER_CONTRACT(to_lower_msgs)
/* PO[C10] get_from_lower_msgs_attr.capacity_respected_value_reported */
CNT_GETTER_CONTRACT(from_lower_msgs)

/* ---- the common getters registered by xcm_tp_common_attr_populate(): they forward the caller's buffer and capacity
 * to the helpers above (xcm_tp_get_str_attr is inlined: its contract speaks about 7-character strings only) */
#define STR_GETTER_ENSURES(LEN, STR) \
__CPROVER_ensures((size_t)(LEN) <= capacity ? __CPROVER_return_value == (int)(LEN) : OVERFLOW_UNTOUCHED(__CPROVER_return_value, value)) \
__CPROVER_ensures(__CPROVER_return_value >= 0 ==> (xv_j < __CPROVER_return_value ? XV_B(value)[xv_j] == (uint8_t)(STR)[xv_j] : BUF_SAME_J(value)))

#define XV_TYPE_STR(s) ((s)->type == xcm_socket_type_conn ? "connection" : "server")
#define XV_TYPE_LEN(s) ((s)->type == xcm_socket_type_conn ? sizeof("connection") : sizeof("server"))
static int get_type_attr(struct xcm_socket *s, void *context, void *value, size_t capacity)
__CPROVER_requires(BUF_REQ(value, capacity) && __CPROVER_is_fresh(s, sizeof(*s)) && (s->type == xcm_socket_type_conn || s->type == xcm_socket_type_server))
__CPROVER_assigns(xv_errno)
__CPROVER_assigns(BUF_ASSIGNS(value, capacity))
/* PO[C10] get_type_attr.capacity_respected_value_reported */
STR_GETTER_ENSURES(XV_TYPE_LEN(s), XV_TYPE_STR(s))
;

/* a transport is a byte stream iff it has no max_msg operation */
#define OPS_REQ(s) (__CPROVER_is_fresh((s), sizeof(*(s))) && __CPROVER_is_fresh((s)->proto, sizeof(*(s)->proto)) && \
                    __CPROVER_is_fresh((s)->proto->ops, sizeof(*(s)->proto->ops)))
#define XV_SVC_STR(s) ((s)->proto->ops->max_msg == NULL ? XCM_SERVICE_BYTESTREAM : XCM_SERVICE_MESSAGING)
#define XV_SVC_LEN(s) ((s)->proto->ops->max_msg == NULL ? sizeof(XCM_SERVICE_BYTESTREAM) : sizeof(XCM_SERVICE_MESSAGING))
static int get_service_attr(struct xcm_socket *s, void *context, void *value, size_t capacity)
__CPROVER_requires(BUF_REQ(value, capacity) && OPS_REQ(s))
__CPROVER_assigns(xv_errno)
__CPROVER_assigns(BUF_ASSIGNS(value, capacity))
/* PO[C10] get_service_attr.capacity_respected_value_reported */
STR_GETTER_ENSURES(XV_SVC_LEN(s), XV_SVC_STR(s))
;

/* xcm.local_addr / xcm.remote_addr: no address (yet) => ENOENT, else the string */
static int addr_to_attr(const char *addr, void *value, size_t capacity)
__CPROVER_requires(BUF_REQ(value, capacity) && (addr == NULL || (__CPROVER_is_fresh(addr, 8) && addr[7] == 0)))
__CPROVER_assigns(xv_errno)
__CPROVER_assigns(BUF_ASSIGNS(value, capacity))
/* PO[C10] addr_to_attr.no_address_is_enoent */
__CPROVER_ensures(addr == NULL ==> (__CPROVER_return_value == -1 && xv_errno == ENOENT && BUF_SAME_J(value)))
/* PO[C10] addr_to_attr.success_iff_it_fits */
__CPROVER_ensures(addr != NULL ==> ((size_t)XV_STRLEN8(addr) + 1 <= capacity ? __CPROVER_return_value == XV_STRLEN8(addr) + 1 : OVERFLOW_UNTOUCHED(__CPROVER_return_value, value)))
/* PO[C10] addr_to_attr.returns_bytes_written */
__CPROVER_ensures(__CPROVER_return_value >= 0 ==> ((size_t)__CPROVER_return_value <= capacity && \
                  (xv_j < __CPROVER_return_value ? XV_B(value)[xv_j] == XV_CB(addr)[xv_j] : BUF_SAME_J(value))))
;

static int get_blocking_attr(struct xcm_socket *s, void *context, void *value, size_t capacity)
__CPROVER_requires(BUF_REQ(value, capacity) && __CPROVER_is_fresh(s, sizeof(*s)))
__CPROVER_assigns(xv_errno)
__CPROVER_assigns(BUF_ASSIGNS(value, capacity))
/* PO[C10] get_blocking_attr.success_iff_it_fits */
__CPROVER_ensures(sizeof(bool) <= capacity ? __CPROVER_return_value == (int)sizeof(bool) : OVERFLOW_UNTOUCHED(__CPROVER_return_value, value))
/* PO[C10,C11] get_blocking_attr.returns_bytes_written */
__CPROVER_ensures(__CPROVER_return_value >= 0 ==> ((size_t)__CPROVER_return_value <= capacity && \
                  (xv_j < __CPROVER_return_value ? XV_B(value)[xv_j] == (uint8_t)s->is_blocking : BUF_SAME_J(value))))
;

/* xcm.max_msg_size: connection sockets only; the transport's max_msg is behind the ops table: address-taken stub */
size_t xv_mm_ret; const struct xcm_socket *xv_mm_s; long xv_mm_calls;
size_t xv_max_msg_stub(struct xcm_socket *s)
__CPROVER_requires(xv_mm_calls >= 0 && xv_mm_calls < XV_CALLS_MAX)
__CPROVER_assigns(xv_mm_ret, xv_mm_s, xv_mm_calls)
__CPROVER_ensures(__CPROVER_return_value == xv_mm_ret && xv_mm_s == s && xv_mm_calls == __CPROVER_old(xv_mm_calls) + 1 && xv_mm_ret <= (size_t)INT64_MAX)
;
static int get_max_msg_attr(struct xcm_socket *s, void *context, void *value, size_t capacity)
__CPROVER_requires(BUF_REQ(value, capacity) && OPS_REQ(s) && s->proto->ops->max_msg == xv_max_msg_stub && xv_mm_calls >= 0 && xv_mm_calls < XV_CALLS_MAX)
__CPROVER_assigns(xv_errno, xv_mm_ret, xv_mm_s, xv_mm_calls)
__CPROVER_assigns(BUF_ASSIGNS(value, capacity))
/* PO[C10] get_max_msg_attr.server_socket_is_enoent */
__CPROVER_ensures(s->type != xcm_socket_type_conn ==> (__CPROVER_return_value == -1 && xv_errno == ENOENT && BUF_SAME_J(value)))
/* PO[C10] get_max_msg_attr.success_iff_it_fits */
__CPROVER_ensures(s->type == xcm_socket_type_conn ==> (sizeof(int64_t) <= capacity ? __CPROVER_return_value == (int)sizeof(int64_t) : OVERFLOW_UNTOUCHED(__CPROVER_return_value, value)))
/* PO[C10] get_max_msg_attr.returns_bytes_written */
__CPROVER_ensures(__CPROVER_return_value >= 0 ==> ((size_t)__CPROVER_return_value <= capacity && xv_mm_s == s && \
                  *(int64_t *)value == (int64_t)xv_mm_ret && (xv_j >= __CPROVER_return_value ==> BUF_SAME_J(value))))
;
#endif /* XT_TP */


/* =================================================================================================== xcm_tp_btcp.c */
#ifdef XT_BTCP
/* The attribute callbacks of the TCP byte-stream transport that sit between the attribute tree (which hands down the
 * caller's buffer and ITS capacity, whatever the attribute's type -- a typed xcm_attr_get_bool() arrives here with
 * capacity 1 for an int64 attribute) and tcp_attr.c.  (TOBTCP() is a statement expression: accessor macro instead.) */
#define XBT(s) ((struct btcp_socket *)((uint8_t *)(s) + sizeof(struct xcm_socket)))
#define XBT_SIZE (sizeof(struct xcm_socket) + sizeof(struct btcp_socket))
#define SOCK_REQ(s) __CPROVER_is_fresh((s), XBT_SIZE)

/* fixed-size getter of an attribute that exists iff `exists`: sizeof(T) bytes or nothing; too small a buffer for an
 * existing attribute is EOVERFLOW, buffer untouched */
#define FIXED_GETTER_ENSURES(T, exists) \
__CPROVER_ensures(__CPROVER_return_value == (int)sizeof(T) || __CPROVER_return_value == -1) \
__CPROVER_ensures(((exists) && capacity < sizeof(T)) ==> OVERFLOW_UNTOUCHED(__CPROVER_return_value, value)) \
__CPROVER_ensures(__CPROVER_return_value < 0 ==> BUF_SAME_J(value)) \
__CPROVER_ensures(__CPROVER_return_value >= 0 ==> ((size_t)__CPROVER_return_value <= capacity && (xv_j >= __CPROVER_return_value ==> BUF_SAME_J(value))))

/* ---- GEN_TCP_FIELD_GET: tcp.rtt, tcp.total_retrans, tcp.segs_in, tcp.segs_out */
#define FIELD_GET_CONTRACT(name) \
static int get_ ## name ## _attr(struct xcm_socket *s, void *context, void *value, size_t capacity) \
__CPROVER_requires(BUF_REQ(value, capacity) && SOCK_REQ(s) && xv_gso_calls >= 0 && xv_gso_calls < XV_CALLS_MAX) \
__CPROVER_assigns(GSO_ASSIGNS) \
__CPROVER_assigns(BUF_ASSIGNS(value, capacity)) \
FIXED_GETTER_ENSURES(int64_t, 1) \
__CPROVER_ensures(__CPROVER_return_value >= 0 ==> (xv_gso_fd == XBT(s)->fd && xv_gso_rc == 0)) \
;
/* PO[C10] get_rtt_attr.capacity_respected */
FIELD_GET_CONTRACT(rtt)
/* PO[C10] get_total_retrans_attr.capacity_respected */
FIELD_GET_CONTRACT(total_retrans)
/* PO[C10] get_segs_in_attr.capacity_respected */
FIELD_GET_CONTRACT(segs_in)
/* PO[C10] get_segs_out_attr.capacity_respected */
FIELD_GET_CONTRACT(segs_out)

/* ---- GEN_TCP_GET: tcp.keepalive (bool), tcp.keepalive_time/_interval/_count, tcp.user_timeout (int64) */
#define TCP_GET_CONTRACT(name, T) \
static int get_ ## name ## _attr(struct xcm_socket *s, void *context, void *value, size_t capacity) \
__CPROVER_requires(BUF_REQ(value, capacity) && SOCK_REQ(s)) \
__CPROVER_assigns(xv_errno) \
__CPROVER_assigns(BUF_ASSIGNS(value, capacity)) \
FIXED_GETTER_ENSURES(T, 1) \
__CPROVER_ensures(capacity >= sizeof(T) ==> (__CPROVER_return_value == (int)sizeof(T) && \
                  ((size_t)xv_j < sizeof(T) ==> XV_B(value)[xv_j] == XV_CB(&XBT(s)->conn.tcp_opts.name)[xv_j]))) \
;
/* PO[C10,C11] get_keepalive_attr.capacity_respected_value_reported */
TCP_GET_CONTRACT(keepalive, bool)
/* PO[C10,C11] get_keepalive_time_attr.capacity_respected_value_reported */
TCP_GET_CONTRACT(keepalive_time, int64_t)
/* PO[C10,C11] get_keepalive_interval_attr.capacity_respected_value_reported */
TCP_GET_CONTRACT(keepalive_interval, int64_t)
/* PO[C10,C11] get_keepalive_count_attr.capacity_respected_value_reported */
TCP_GET_CONTRACT(keepalive_count, int64_t)
/* PO[C10,C11] get_user_timeout_attr.capacity_respected_value_reported */
TCP_GET_CONTRACT(user_timeout, int64_t)

/* ---- ipv6.scope: present (>= 0) on IPv6 sockets only */
static int get_scope_attr(struct xcm_socket *s, void *context, void *value, size_t capacity)
__CPROVER_requires(BUF_REQ(value, capacity) && SOCK_REQ(s))
__CPROVER_assigns(xv_errno)
__CPROVER_assigns(BUF_ASSIGNS(value, capacity))
/* PO[C10] get_scope_attr.capacity_respected */
FIXED_GETTER_ENSURES(int64_t, XBT(s)->scope >= 0)
/* PO[C10] get_scope_attr.value_or_enoent */
__CPROVER_ensures(XBT(s)->scope < 0 ? (__CPROVER_return_value == -1 && xv_errno == ENOENT) : \
                  (capacity >= sizeof(int64_t) ==> (__CPROVER_return_value == (int)sizeof(int64_t) && *(int64_t *)value == XBT(s)->scope)))
;

/* ---- GEN_TCP_SET: the value handed to xcm_attr_set() reaches tcp_set_<name>() with THIS socket's option struct and
 * THIS socket's descriptor (the attribute tree has checked type and length: len == sizeof(T)); what tcp_set_<name>()
 * then guarantees (stored, written to the descriptor, in force) is its own contract, enforced in jobs tcpattr.set_*. */
#define TCP_SET_CONTRACT(name, T, L, O, K) \
static int set_ ## name ## _attr(struct xcm_socket *s, void *context, const void *value, size_t len) \
__CPROVER_requires(SOCK_REQ(s) && len == sizeof(T) && __CPROVER_is_fresh(value, sizeof(T)) && OPTS_VALID(&XBT(s)->conn.tcp_opts) && SO_RANGE) \
__CPROVER_requires(xv_g_inforce == (SO_IS(L, O) ==> (xv_so_ok_n >= 1 && xv_so_ok_fd == XBT(s)->fd && xv_so_ok_val == (int)(XBT(s)->conn.tcp_opts.name * (K))))) \
__CPROVER_assigns(XBT(s)->conn.tcp_opts.name, SO_ASSIGNS) \
__CPROVER_ensures(__CPROVER_return_value == 0 || __CPROVER_return_value == -1) \
__CPROVER_ensures(__CPROVER_return_value == 0 ==> XBT(s)->conn.tcp_opts.name == *(const T *)value) \
__CPROVER_ensures((__CPROVER_return_value == 0 && XBT(s)->fd >= 0 && (xv_g_inforce || *(const T *)value != __CPROVER_old(XBT(s)->conn.tcp_opts.name))) ==> \
                  SO_INFORCE(L, O, XBT(s)->fd, (int)(*(const T *)value * (K)))) \
__CPROVER_ensures(__CPROVER_return_value == -1 ==> XBT(s)->conn.tcp_opts.name == __CPROVER_old(XBT(s)->conn.tcp_opts.name)) \
__CPROVER_ensures(!SO_IS(L, O) ==> SO_ROW_SAME) \
;
/* PO[C11] set_keepalive_attr.reaches_this_sockets_options_and_descriptor */
TCP_SET_CONTRACT(keepalive, bool, SOL_SOCKET, SO_KEEPALIVE, 1)
/* PO[C11] set_keepalive_time_attr.reaches_this_sockets_options_and_descriptor */
TCP_SET_CONTRACT(keepalive_time, int64_t, SOL_TCP, TCP_KEEPIDLE, 1)
/* PO[C11] set_keepalive_interval_attr.reaches_this_sockets_options_and_descriptor */
TCP_SET_CONTRACT(keepalive_interval, int64_t, SOL_TCP, TCP_KEEPINTVL, 1)
/* PO[C11] set_keepalive_count_attr.reaches_this_sockets_options_and_descriptor */
TCP_SET_CONTRACT(keepalive_count, int64_t, SOL_TCP, TCP_KEEPCNT, 1)
/* PO[C11] set_user_timeout_attr.reaches_this_sockets_options_and_descriptor */
TCP_SET_CONTRACT(user_timeout, int64_t, SOL_TCP, TCP_USER_TIMEOUT, 1000)
#endif /* XT_BTCP */

#include "contracts/end.h"
#endif
