/* contracts/framing.h -- contracts for the message-framing transports
 * libxcm/tp/tcp/xcm_tp_tcp.c and libxcm/tp/tls/xcm_tp_tls.c (same text modulo
 * renaming; instantiate with XF_STRUCT = tcp_socket|tls_socket and
 * XF_PREFIX = tcp|tls).  Attached to the REAL static functions by
 * redeclaration after the TU has been #included.
 *
 * PO[...] tags name the obligations that carry a property (see bin/xv).
 */
#ifndef XV_FRAMING_H
#define XV_FRAMING_H

#include "contracts/lower.h"

#define XFN_(p, n) p##_##n
#define XFN__(p, n) XFN_(p, n)
#define XFN(n) XFN__(XF_PREFIX, n)

#define XF(s) ((struct XF_STRUCT *)((uint8_t *)(s) + sizeof(struct xcm_socket)))
#define SB(s) (XF(s)->conn.send_mbuf)
#define RB(s) (XF(s)->conn.receive_mbuf)
#define SENT(s) (XF(s)->conn.mbuf_sent)
#define CN(s, c) (XF(s)->conn.cnts[xcm_tp_cnt_##c])
#define XF_SIZE (sizeof(struct xcm_socket) + sizeof(struct XF_STRUCT))

#define XHDR(d) ((((uint32_t)XV_U8(d)[0]) << 24) | (((uint32_t)XV_U8(d)[1]) << 16) | \
                 (((uint32_t)XV_U8(d)[2]) << 8) | ((uint32_t)XV_U8(d)[3]))
/* byte i of the wire frame BE32(len) . buf */
#define FRAME_BYTE(len, buf, i) ((i) == 0 ? (uint8_t)(((len) >> 24) & 0xff) : (i) == 1 ? (uint8_t)(((len) >> 16) & 0xff) : \
                                 (i) == 2 ? (uint8_t)(((len) >> 8) & 0xff) : (i) == 3 ? (uint8_t)((len) & 0xff) : XV_U8(buf)[(i) - 4])


/* ---- representation invariants (DESIGN 4.2) */
#define MBUF_SHAPE(b) ((b).wire_capacity <= MBUF_WIRE_MAX && (b).wire_len <= (b).wire_capacity)
#define MBUF_MEM(b) (((b).wire_capacity > 0 ==> __CPROVER_is_fresh((b).wire_data, (b).wire_capacity)) && \
                     ((b).wire_capacity == 0 ==> (b).wire_data == NULL))
/* send side: empty, or one complete frame of which mbuf_sent < wire_len bytes went down */
#define TX_SHAPE(s) (MBUF_SHAPE(SB(s)) && \
    (SB(s).wire_len == 0 ? SENT(s) == 0 \
                         : (SB(s).wire_len >= 5 && XHDR(SB(s).wire_data) == SB(s).wire_len - 4 && \
                            SENT(s) >= 0 && SENT(s) < (int)SB(s).wire_len)))
/* message accounting on the send side: accepted - handed down == frame pending */
#define TX_CNT(s) (CN(s, from_app_msgs) - CN(s, to_lower_msgs) == (SB(s).wire_len != 0 ? 1 : 0) && \
                   CN(s, from_app_bytes) - CN(s, to_lower_bytes) == (SB(s).wire_len != 0 ? (int64_t)SB(s).wire_len - 4 : 0))
#define CNT_RANGE(s) (CN(s, to_app_bytes) >= 0 && CN(s, to_app_bytes) < (1L << 62) && CN(s, from_app_bytes) >= 0 && CN(s, from_app_bytes) < (1L << 62) && \
                      CN(s, to_lower_bytes) >= 0 && CN(s, to_lower_bytes) < (1L << 62) && CN(s, from_lower_bytes) >= 0 && CN(s, from_lower_bytes) < (1L << 62) && \
                      CN(s, to_app_msgs) >= 0 && CN(s, to_app_msgs) < (1L << 62) && CN(s, from_app_msgs) >= 0 && CN(s, from_app_msgs) < (1L << 62) && \
                      CN(s, to_lower_msgs) >= 0 && CN(s, to_lower_msgs) < (1L << 62) && CN(s, from_lower_msgs) >= 0 && CN(s, from_lower_msgs) < (1L << 62))
/* receive side: between calls the buffered frame is incomplete and, once its
 * header is complete, the announced length is legal */
#define RX_SHAPE(s) (MBUF_SHAPE(RB(s)) && \
    ((!XF(s)->conn.bad && RB(s).wire_len >= 4) ==> (XHDR(RB(s).wire_data) >= 1 && XHDR(RB(s).wire_data) <= MBUF_MSG_MAX && \
                                                    RB(s).wire_len - 4 < XHDR(RB(s).wire_data))))
/* content link: receive_mbuf holds exactly the last wire_len stream bytes */
#define RX_START(s) (xv_rx_off - (long)RB(s).wire_len)
#define RX_LINK(s) ((xv_k >= RX_START(s) && xv_k < xv_rx_off) ==> XV_U8(RB(s).wire_data)[xv_k - RX_START(s)] == xv_rx_k)
#define RX_CNT(s) (CN(s, from_lower_msgs) == CN(s, to_app_msgs) && CN(s, from_lower_bytes) >= CN(s, to_app_bytes))
#define GHOST_RANGE (xv_tx_off >= 0 && xv_tx_off < XV_OFF_MAX && xv_rx_off >= 0 && xv_rx_off < XV_OFF_MAX && xv_k >= 0 && xv_k < 2 * XV_OFF_MAX)

/* ---- the layer below, ASSUMED here, enforced in units btcp / btls */
int xcm_tp_socket_send(struct xcm_socket *__restrict s, const void *__restrict buf, size_t len)
__CPROVER_requires(LOWER_SEND_REQUIRES(buf, len))
__CPROVER_assigns(LOWER_SEND_ASSIGNS)
__CPROVER_ensures(LOWER_SEND_ENSURES(__CPROVER_return_value, buf, len))
__CPROVER_ensures(LOWER_DEAD_MONOTONE)
;

int xcm_tp_socket_receive(struct xcm_socket *__restrict s, void *__restrict buf, size_t capacity)
__CPROVER_requires(LOWER_RECV_REQUIRES(buf, capacity))
__CPROVER_assigns(LOWER_RECV_ASSIGNS(buf, capacity))
__CPROVER_ensures(LOWER_RECV_ENSURES(__CPROVER_return_value, buf, capacity))
__CPROVER_ensures(LOWER_DEAD_MONOTONE)
;

/* ---- try_finish_send: flush (part of) the pending frame */
#define TFS_OLD_REM ((long)__CPROVER_old(SB(s).wire_len) - (long)__CPROVER_old(SENT(s)))
static int try_finish_send(struct xcm_socket *s)
__CPROVER_requires(__CPROVER_is_fresh(s, XF_SIZE))
__CPROVER_requires(MBUF_SHAPE(SB(s)) && MBUF_MEM(SB(s)) && TX_SHAPE(s) && CNT_RANGE(s) && GHOST_RANGE)
__CPROVER_assigns(SENT(s), SB(s).wire_len, CN(s, to_lower_bytes), CN(s, to_lower_msgs), LOWER_SEND_ASSIGNS)
__CPROVER_ensures(__CPROVER_return_value == 0 || __CPROVER_return_value == -1)
__CPROVER_ensures(TX_SHAPE(s) && LOWER_DEAD_MONOTONE)
/* PO[C01] try_finish_send.flushed: success <=> nothing pending; exactly the remaining bytes went down */
__CPROVER_ensures(__CPROVER_return_value == 0 ==> (SB(s).wire_len == 0 && xv_tx_off == __CPROVER_old(xv_tx_off) + TFS_OLD_REM))
/* PO[C01,C03] try_finish_send.kept: failure keeps the frame, progress is monotone and accounted */
__CPROVER_ensures(__CPROVER_return_value == -1 ==> (xv_errno > 0 && SB(s).wire_len == __CPROVER_old(SB(s).wire_len) && SB(s).wire_len != 0 && \
        SENT(s) >= __CPROVER_old(SENT(s)) && xv_tx_off - SENT(s) == __CPROVER_old(xv_tx_off) - __CPROVER_old(SENT(s)) && \
        (xv_errno != EAGAIN ==> xv_lower_dead)))
/* PO[C01] try_finish_send.bytes: what went down in this call is wire_data[old sent ..) in order, nothing else */
__CPROVER_ensures((xv_k >= __CPROVER_old(xv_tx_off) && xv_k < xv_tx_off) \
        ? (xv_tx_k_set && xv_tx_k == XV_U8(SB(s).wire_data)[__CPROVER_old(SENT(s)) + (xv_k - __CPROVER_old(xv_tx_off))]) \
        : (xv_tx_k == __CPROVER_old(xv_tx_k) && xv_tx_k_set == __CPROVER_old(xv_tx_k_set)))
/* PO[C17] try_finish_send.cnt: to_lower counts a frame exactly when its last byte went down */
__CPROVER_ensures((__CPROVER_return_value == 0 && __CPROVER_old(SB(s).wire_len) != 0) \
        ? (CN(s, to_lower_msgs) == __CPROVER_old(CN(s, to_lower_msgs)) + 1 && \
           CN(s, to_lower_bytes) == __CPROVER_old(CN(s, to_lower_bytes)) + (int64_t)__CPROVER_old(SB(s).wire_len) - 4) \
        : (CN(s, to_lower_msgs) == __CPROVER_old(CN(s, to_lower_msgs)) && CN(s, to_lower_bytes) == __CPROVER_old(CN(s, to_lower_bytes))))
;

#endif
