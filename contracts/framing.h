/* contracts/framing.h -- contracts for the message-framing transports
 * libxcm/tp/tcp/xcm_tp_tcp.c and libxcm/tp/tls/xcm_tp_tls.c (same text modulo
 * renaming; instantiate with XF_STRUCT = tcp_socket|tls_socket and
 * XF_PREFIX = tcp|tls).  Attached to the REAL static functions by
 * redeclaration after the TU has been #included.
 *
 * PO[...] tags name the obligations that carry a property (see bin/xv).
 */
#ifndef XV_FRAMING_H
#define XV_FRAMING_H
#include "contracts/begin.h"

#include "contracts/lower.h"

#define XFN_(p, n) p##_##n
#define XFN__(p, n) XFN_(p, n)
#define XFN(n) XFN__(XF_PREFIX, n)

#define XF(s) ((struct XF_STRUCT *)((uint8_t *)(s) + sizeof(struct xcm_socket)))
#define SB(s) (XF(s)->conn.send_mbuf)
#define RB(s) (XF(s)->conn.receive_mbuf)
#define SENT(s) (XF(s)->conn.mbuf_sent)
#define CN(s, c) (XF(s)->conn.cnts[xcm_tp_cnt_##c])
#define XF_SIZE (sizeof(struct xcm_socket) + sizeof(struct XF_STRUCT))

#define XHDR(d) ((((uint32_t)XV_U8(d)[0]) << 24) | (((uint32_t)XV_U8(d)[1]) << 16) | \
                 (((uint32_t)XV_U8(d)[2]) << 8) | ((uint32_t)XV_U8(d)[3]))
/* byte i of the wire frame BE32(len) . buf */
#define FRAME_BYTE(len, buf, i) ((i) == 0 ? (uint8_t)(((len) >> 24) & 0xff) : (i) == 1 ? (uint8_t)(((len) >> 16) & 0xff) : \
                                 (i) == 2 ? (uint8_t)(((len) >> 8) & 0xff) : (i) == 3 ? (uint8_t)((len) & 0xff) : XV_U8(buf)[(i) - 4])


/* ---- representation invariants (DESIGN 4.2) */
#define MBUF_SHAPE(b) ((b).wire_capacity <= MBUF_WIRE_MAX && (b).wire_len <= (b).wire_capacity)
#define MBUF_MEM(b) (((b).wire_capacity > 0 ==> __CPROVER_is_fresh((b).wire_data, (b).wire_capacity)) && \
                     ((b).wire_capacity == 0 ==> (b).wire_data == NULL))
/* send side: empty, or one complete frame of which mbuf_sent < wire_len bytes went down */
#define TX_SHAPE(s) (MBUF_SHAPE(SB(s)) && \
    (SB(s).wire_len == 0 ? SENT(s) == 0 \
                         : (SB(s).wire_len >= 5 && XHDR(SB(s).wire_data) == SB(s).wire_len - 4 && \
                            SENT(s) >= 0 && SENT(s) < (int)SB(s).wire_len)))
/* message accounting on the send side: accepted - handed down == frame pending */
#define TX_CNT(s) (CN(s, from_app_msgs) - CN(s, to_lower_msgs) == (SB(s).wire_len != 0 ? 1 : 0) && \
                   CN(s, from_app_bytes) - CN(s, to_lower_bytes) == (SB(s).wire_len != 0 ? (int64_t)SB(s).wire_len - 4 : 0))
/* counters are assumed < 2^61 on entry of a public op (a connection cannot move 2 EiB); helper functions called
 * in mid-op accept the slack an op can add (XV_SLACK) */
#define XV_SLACK (1L << 24)
#define CNT_LIM(s, lim) (CN(s, to_app_bytes) >= 0 && CN(s, to_app_bytes) < (lim) && CN(s, from_app_bytes) >= 0 && CN(s, from_app_bytes) < (lim) && \
                      CN(s, to_lower_bytes) >= 0 && CN(s, to_lower_bytes) < (lim) && CN(s, from_lower_bytes) >= 0 && CN(s, from_lower_bytes) < (lim) && \
                      CN(s, to_app_msgs) >= 0 && CN(s, to_app_msgs) < (lim) && CN(s, from_app_msgs) >= 0 && CN(s, from_app_msgs) < (lim) && \
                      CN(s, to_lower_msgs) >= 0 && CN(s, to_lower_msgs) < (lim) && CN(s, from_lower_msgs) >= 0 && CN(s, from_lower_msgs) < (lim))
#define CNT_RANGE(s) CNT_LIM(s, 1L << 61)                    /* entry of a public op */
#define CNT_RANGE_IN(s) CNT_LIM(s, (1L << 61) + XV_SLACK)    /* entry of a helper    */
#define CNT_RANGE_OUT(s) CNT_LIM(s, (1L << 61) + 2 * XV_SLACK) /* any exit            */
/* receive side: between calls the buffered frame is incomplete and, once its
 * header is complete, the announced length is legal */
#define RX_SHAPE(s) (MBUF_SHAPE(RB(s)) && \
    ((!XF(s)->conn.bad && RB(s).wire_len >= 4) ==> (XHDR(RB(s).wire_data) >= 1 && XHDR(RB(s).wire_data) <= MBUF_MSG_MAX && \
                                                    RB(s).wire_len - 4 < XHDR(RB(s).wire_data))))
/* content link: receive_mbuf holds exactly the last wire_len stream bytes */
#define RX_START(s) (xv_rx_off - (long)RB(s).wire_len)
#define RX_LINK1(s, pos, val) (((pos) >= RX_START(s) && (pos) < xv_rx_off) ==> XV_U8(RB(s).wire_data)[(pos) - RX_START(s)] == (val))
#define RX_LINK(s) RX_LINK1(s, xv_k, xv_rx_k)
/* the offset the ut_realloc model preserves is the buffer offset of the tracked stream position */
#define RX_KEEP(s) ((xv_k >= RX_START(s) && xv_k < RX_START(s) + (long)MBUF_WIRE_MAX) ==> (long)xv_keep == xv_k - RX_START(s))
#define RX_CNT(s) (CN(s, from_lower_msgs) == CN(s, to_app_msgs) && CN(s, from_lower_bytes) >= CN(s, to_app_bytes))
#define GHOST_LIM(lim) (xv_tx_off >= 0 && xv_tx_off < (lim) && xv_rx_off >= 0 && xv_rx_off < (lim) && xv_k >= 0 && xv_k < 2 * XV_OFF_MAX)
#define GHOST_RANGE GHOST_LIM(XV_OFF_MAX)
#define GHOST_RANGE_IN GHOST_LIM(XV_OFF_MAX + XV_SLACK)
#define GHOST_RANGE_OUT GHOST_LIM(XV_OFF_MAX + 2 * XV_SLACK)

/* ---- the layer below, ASSUMED here, enforced in units btcp / btls */
int xcm_tp_socket_send(struct xcm_socket *__restrict s, const void *__restrict buf, size_t len)
__CPROVER_requires(LOWER_SEND_REQUIRES(buf, len))
__CPROVER_assigns(LOWER_SEND_ASSIGNS)
__CPROVER_ensures(LOWER_SEND_ENSURES(__CPROVER_return_value, buf, len))
__CPROVER_ensures(LOWER_DEAD_MONOTONE)
;

int xcm_tp_socket_receive(struct xcm_socket *__restrict s, void *__restrict buf, size_t capacity)
__CPROVER_requires(LOWER_RECV_REQUIRES(buf, capacity))
__CPROVER_assigns(LOWER_RECV_ASSIGNS(buf, capacity))
__CPROVER_ensures(LOWER_RECV_ENSURES(__CPROVER_return_value, buf, capacity))
__CPROVER_ensures(LOWER_DEAD_MONOTONE)
;

/* ---- try_finish_send: flush (part of) the pending frame */
#define TFS_OLD_REM ((long)__CPROVER_old(SB(s).wire_len) - (long)__CPROVER_old(SENT(s)))
static int try_finish_send(struct xcm_socket *s)
__CPROVER_requires(__CPROVER_is_fresh(s, XF_SIZE))
__CPROVER_requires(MBUF_SHAPE(SB(s)) && MBUF_MEM(SB(s)) && TX_SHAPE(s) && CNT_RANGE_IN(s) && GHOST_RANGE_IN)
__CPROVER_assigns(SENT(s), SB(s).wire_len, CN(s, to_lower_bytes), CN(s, to_lower_msgs), LOWER_SEND_ASSIGNS)
__CPROVER_ensures(__CPROVER_return_value == 0 || __CPROVER_return_value == -1)
__CPROVER_ensures(xv_tx_off >= __CPROVER_old(xv_tx_off) && xv_tx_off <= __CPROVER_old(xv_tx_off) + (long)MBUF_WIRE_MAX)
__CPROVER_ensures(CN(s, to_lower_msgs) >= __CPROVER_old(CN(s, to_lower_msgs)) && CN(s, to_lower_msgs) <= __CPROVER_old(CN(s, to_lower_msgs)) + 1 && \
                  CN(s, to_lower_bytes) >= __CPROVER_old(CN(s, to_lower_bytes)) && CN(s, to_lower_bytes) <= __CPROVER_old(CN(s, to_lower_bytes)) + MBUF_MSG_MAX)
__CPROVER_ensures(TX_SHAPE(s) && LOWER_DEAD_MONOTONE)
/* PO[C01] try_finish_send.flushed: success <=> nothing pending; exactly the remaining bytes went down */
__CPROVER_ensures(__CPROVER_return_value == 0 ==> (SB(s).wire_len == 0 && xv_tx_off == __CPROVER_old(xv_tx_off) + TFS_OLD_REM))
/* PO[C01,C03] try_finish_send.kept: failure keeps the frame, progress is monotone and accounted */
__CPROVER_ensures(__CPROVER_return_value == -1 ==> (xv_errno > 0 && SB(s).wire_len == __CPROVER_old(SB(s).wire_len) && SB(s).wire_len != 0 && \
        SENT(s) >= __CPROVER_old(SENT(s)) && xv_tx_off - SENT(s) == __CPROVER_old(xv_tx_off) - __CPROVER_old(SENT(s)) && \
        (xv_errno != EAGAIN ==> xv_lower_dead)))
/* PO[C01] try_finish_send.bytes: what went down in this call is wire_data[old sent ..) in order, nothing else */
__CPROVER_ensures((xv_k >= __CPROVER_old(xv_tx_off) && xv_k < xv_tx_off) \
        ? (xv_tx_k_set && xv_tx_k == XV_U8(SB(s).wire_data)[__CPROVER_old(SENT(s)) + (xv_k - __CPROVER_old(xv_tx_off))]) \
        : (xv_tx_k == __CPROVER_old(xv_tx_k) && xv_tx_k_set == __CPROVER_old(xv_tx_k_set)))
/* PO[C17] try_finish_send.cnt: to_lower counts a frame exactly when its last byte went down */
__CPROVER_ensures((__CPROVER_return_value == 0 && __CPROVER_old(SB(s).wire_len) != 0) \
        ? (CN(s, to_lower_msgs) == __CPROVER_old(CN(s, to_lower_msgs)) + 1 && \
           CN(s, to_lower_bytes) == __CPROVER_old(CN(s, to_lower_bytes)) + (int64_t)__CPROVER_old(SB(s).wire_len) - 4) \
        : (CN(s, to_lower_msgs) == __CPROVER_old(CN(s, to_lower_msgs)) && CN(s, to_lower_bytes) == __CPROVER_old(CN(s, to_lower_bytes))))
;

/* ---- xcm_tp_socket_finish / update of the layer below (ASSUMED; enforced in unit btcp) */
int xcm_tp_socket_finish(struct xcm_socket *s)
__CPROVER_requires(1)
__CPROVER_assigns(xv_errno, xv_lower_dead)
__CPROVER_ensures((__CPROVER_return_value == 0 && !xv_lower_dead && !__CPROVER_old(xv_lower_dead)) || \
                  (__CPROVER_return_value == -1 && xv_errno > 0 && (xv_errno != EAGAIN ==> xv_lower_dead)))
__CPROVER_ensures(LOWER_DEAD_MONOTONE)
;
/* ghost: condition the lower socket had when its update() ran last */
int xv_lower_updated_with;
_Bool xv_lower_updated;
void xcm_tp_socket_update(struct xcm_socket *s)
__CPROVER_requires(__CPROVER_r_ok(s, sizeof(struct xcm_socket)))
__CPROVER_assigns(xv_lower_updated_with, xv_lower_updated)
__CPROVER_ensures(xv_lower_updated && xv_lower_updated_with == s->condition)
;

/* ---- tcp_send / tls_send */
#define XF_WHOLE_TX(s) (MBUF_SHAPE(SB(s)) && MBUF_MEM(SB(s)) && TX_SHAPE(s) && TX_CNT(s))
#define TS_F (__CPROVER_old(xv_tx_off) + TFS_OLD_REM)                     /* stream offset at which a new frame starts */
#define TS_BUFSZ(len) ((len) == 0 || (len) > MBUF_MSG_MAX ? 1 : (len))
static int XFN(send)(struct xcm_socket *__restrict s, const void *__restrict buf, size_t len)
__CPROVER_requires(__CPROVER_is_fresh(s, XF_SIZE))
__CPROVER_requires(CNT_RANGE(s) && GHOST_RANGE && XF_WHOLE_TX(s))
__CPROVER_requires(__CPROVER_is_fresh(buf, TS_BUFSZ(len)))
__CPROVER_requires((xv_k >= xv_tx_off + (long)SB(s).wire_len - SENT(s) + 4 && xv_k < xv_tx_off + (long)SB(s).wire_len - SENT(s) + (long)MBUF_WIRE_MAX) ==> \
                   (long)xv_mc == xv_k - (xv_tx_off + (long)SB(s).wire_len - SENT(s)) - 4)
__CPROVER_requires(XF(s)->conn.bad ==> XF(s)->conn.badness_reason > 0)
/* ghost constants naming entry values: byte xv_j of the pending frame, and the pending byte that will be stream byte xv_k */
__CPROVER_requires((xv_j >= 0 && xv_j < (long)SB(s).wire_len) ==> XV_U8(SB(s).wire_data)[xv_j] == xv_g_sb_j)
__CPROVER_requires((xv_k >= xv_tx_off && xv_k < xv_tx_off + (long)SB(s).wire_len - SENT(s)) ==> XV_U8(SB(s).wire_data)[SENT(s) + (xv_k - xv_tx_off)] == xv_g_sb_k)
__CPROVER_assigns(SENT(s), SB(s).wire_len, SB(s).wire_capacity, SB(s).wire_data, \
                  CN(s, to_lower_bytes), CN(s, to_lower_msgs), CN(s, from_app_bytes), CN(s, from_app_msgs), LOWER_SEND_ASSIGNS)
__CPROVER_assigns(SB(s).wire_capacity > 0: __CPROVER_object_whole(SB(s).wire_data))
__CPROVER_frees(SB(s).wire_data)
__CPROVER_ensures(__CPROVER_return_value == 0 || (__CPROVER_return_value == -1 && xv_errno > 0))
__CPROVER_ensures(xv_tx_off >= __CPROVER_old(xv_tx_off) && xv_tx_off <= __CPROVER_old(xv_tx_off) + 2 * (long)MBUF_WIRE_MAX)
__CPROVER_ensures(CNT_RANGE_OUT(s) && MBUF_SHAPE(SB(s)) && TX_SHAPE(s) && TX_CNT(s) && LOWER_DEAD_MONOTONE)
/* PO[C03] send.size_checked_first: 0 and oversized lengths are refused with EINVAL/EMSGSIZE */
__CPROVER_ensures(len == 0 ==> (__CPROVER_return_value == -1 && xv_errno == EINVAL))
__CPROVER_ensures(len > MBUF_MSG_MAX ==> (__CPROVER_return_value == -1 && xv_errno == EMSGSIZE))
/* PO[C06] send.bad_sticky: a connection marked bad refuses with the stored errno */
__CPROVER_ensures((len >= 1 && len <= MBUF_MSG_MAX && __CPROVER_old(XF(s)->conn.bad)) ==> (__CPROVER_return_value == -1 && xv_errno == __CPROVER_old(XF(s)->conn.badness_reason)))
/* PO[C03,C17] send.fail_no_trace: -1 while the lower connection is alive (EAGAIN, EMSGSIZE, EINVAL, bad):
 * counters, the pending frame (identity and every byte) are as before; only flush progress of the
 * PREVIOUS frame (which xcm_finish would make as well) is visible */
__CPROVER_ensures((__CPROVER_return_value == -1 && !xv_lower_dead) ==> ( \
        CN(s, from_app_msgs) == __CPROVER_old(CN(s, from_app_msgs)) && CN(s, from_app_bytes) == __CPROVER_old(CN(s, from_app_bytes)) && \
        SB(s).wire_len == __CPROVER_old(SB(s).wire_len) && SB(s).wire_data == __CPROVER_old(SB(s).wire_data) && \
        SB(s).wire_capacity == __CPROVER_old(SB(s).wire_capacity) && \
        SENT(s) >= __CPROVER_old(SENT(s)) && xv_tx_off - SENT(s) == __CPROVER_old(xv_tx_off) - __CPROVER_old(SENT(s)) && \
        ((xv_j >= 0 && xv_j < (long)SB(s).wire_len) ==> XV_U8(SB(s).wire_data)[xv_j] == xv_g_sb_j)))
/* PO[C03] send.fail_offered_bytes_not_sent: -1 => no byte went down beyond the previously accepted frame
 * (so nothing of the refused message is ever on the wire) */
__CPROVER_ensures(__CPROVER_return_value == -1 ==> (xv_tx_off <= TS_F || CN(s, from_app_msgs) == __CPROVER_old(CN(s, from_app_msgs)) + 1))
__CPROVER_ensures((__CPROVER_return_value == -1 && CN(s, from_app_msgs) != __CPROVER_old(CN(s, from_app_msgs))) ==> xv_lower_dead)
/* PO[C01,C03] send.once: success => the frame BE32(len).buf occupies stream offsets [F, F+4+len), F = end of the
 * previous frame: no gap, no overlap, nothing reordered; what is not yet down sits in send_mbuf verbatim */
__CPROVER_ensures(__CPROVER_return_value == 0 ==> ( \
        xv_tx_off >= TS_F && xv_tx_off <= TS_F + 4 + (long)len && \
        (xv_tx_off == TS_F + 4 + (long)len ? SB(s).wire_len == 0 \
                                          : (SB(s).wire_len == 4 + len && (long)SENT(s) == xv_tx_off - TS_F))))
__CPROVER_ensures((__CPROVER_return_value == 0 && xv_k >= TS_F && xv_k < TS_F + 4 + (long)len) ==> ( \
        xv_k < xv_tx_off ? (xv_tx_k_set && xv_tx_k == FRAME_BYTE(len, buf, xv_k - TS_F)) \
                         : XV_U8(SB(s).wire_data)[xv_k - TS_F] == FRAME_BYTE(len, buf, xv_k - TS_F)))
/* PO[C01] send.prev_frame_first: the bytes of the previously pending frame went down before the new frame, unaltered */
__CPROVER_ensures((__CPROVER_return_value == 0 && xv_k >= __CPROVER_old(xv_tx_off) && xv_k < TS_F) ==> ( \
        xv_tx_k_set && xv_tx_k == xv_g_sb_k))
__CPROVER_ensures((xv_k < __CPROVER_old(xv_tx_off) || xv_k >= xv_tx_off) ==> (xv_tx_k == __CPROVER_old(xv_tx_k) && xv_tx_k_set == __CPROVER_old(xv_tx_k_set)))
/* PO[C17] send.cnt: from_app counts exactly the accepted message */
__CPROVER_ensures(__CPROVER_return_value == 0 ==> (CN(s, from_app_msgs) == __CPROVER_old(CN(s, from_app_msgs)) + 1 && \
                                                    CN(s, from_app_bytes) == __CPROVER_old(CN(s, from_app_bytes)) + (int64_t)len))
__CPROVER_ensures(CN(s, to_lower_msgs) >= __CPROVER_old(CN(s, to_lower_msgs)) && CN(s, to_lower_bytes) >= __CPROVER_old(CN(s, to_lower_bytes)) && \
                  CN(s, from_app_msgs) >= __CPROVER_old(CN(s, from_app_msgs)) && CN(s, from_app_bytes) >= __CPROVER_old(CN(s, from_app_bytes)))
;

/* ---- receive side -------------------------------------------------------------------------------- */
#define RX_MEM(s) (MBUF_SHAPE(RB(s)) && MBUF_MEM(RB(s)) && RX_NR(s) && RX_KEEP(s))
#define XF_WHOLE_RX(s) (RX_MEM(s) && RX_SHAPE(s) && RX_LINK(s) && RX_CNT(s))
#define RX_GROWTH(s) ((long)RB(s).wire_len - (long)__CPROVER_old(RB(s).wire_len) == xv_rx_off - __CPROVER_old(xv_rx_off))
/* XV_NR ("no realloc") instantiates the receive-side contracts for the states in which receive_mbuf already has its
 * maximum capacity, so that no reallocation can happen and the buffer pointer is not in the frame.  DFCC cannot replace a
 * call by a contract that says "the buffer is the old one or a freshly realloc'ed one" (is_fresh is not freshness-
 * agnostic, assumed w_ok did not constrain the havocked pointer), so the jobs that cut tcp_receive at buffer_msg are
 * run in this instantiation; the general instantiation is enforced on buffer_receive/_hdr/_payload/_msg themselves. */
#ifdef XV_NR
#define RX_NR(s) (RB(s).wire_capacity == MBUF_WIRE_MAX)
#define RX_ASSIGNS(s) RB(s).wire_len, xv_errno, xv_rx_off, xv_rx_eof, xv_lower_dead
#define RX_ASSIGNS_MEM(s) __CPROVER_assigns(__CPROVER_object_whole(RB(s).wire_data))
#else
#define RX_NR(s) 1
#define RX_ASSIGNS(s) RB(s).wire_len, RB(s).wire_capacity, RB(s).wire_data, xv_errno, xv_rx_off, xv_rx_eof, xv_lower_dead
#define RX_ASSIGNS_MEM(s) __CPROVER_assigns(RB(s).wire_capacity > 0: __CPROVER_object_whole(RB(s).wire_data)) __CPROVER_frees(RB(s).wire_data)
#endif
#define HDR_OK(h) ((h) >= 1 && (h) <= MBUF_MSG_MAX)
#define RX_HDR(s) XHDR(RB(s).wire_data)
/* a complete header is never rewritten (also across the realloc) */
#define RX_B(s, i) (XV_U8(RB(s).wire_data)[i])
#define RX_HDR_OLD(s) ((((uint32_t)__CPROVER_old(RX_B(s, 0))) << 24) | (((uint32_t)__CPROVER_old(RX_B(s, 1))) << 16) | \
                       (((uint32_t)__CPROVER_old(RX_B(s, 2))) << 8) | ((uint32_t)__CPROVER_old(RX_B(s, 3))))
#define RX_HDR_KEPT(s) (__CPROVER_old(RB(s).wire_len) >= 4 ==> RX_HDR(s) == RX_HDR_OLD(s))

/* buffer_receive(s, len): append up to len further stream bytes to receive_mbuf */
static int buffer_receive(struct xcm_socket *s, int len)
__CPROVER_requires(__CPROVER_is_fresh(s, XF_SIZE))
__CPROVER_requires(GHOST_RANGE_IN && RX_MEM(s) && RX_LINK(s))
__CPROVER_requires(len >= 1 && (long)RB(s).wire_len + (long)len <= (long)MBUF_WIRE_MAX)
__CPROVER_assigns(RX_ASSIGNS(s))
RX_ASSIGNS_MEM(s)
/* PO[C06] buffer_receive.eof_reported: the call in which the lower layer reports end of stream returns 0 (never EAGAIN) */
__CPROVER_ensures((xv_rx_eof && !__CPROVER_old(xv_rx_eof)) ==> __CPROVER_return_value == 0)
__CPROVER_ensures(__CPROVER_return_value >= -1 && __CPROVER_return_value <= 1)
__CPROVER_ensures(MBUF_SHAPE(RB(s)) && LOWER_DEAD_MONOTONE && (__CPROVER_old(xv_rx_eof) ==> xv_rx_eof))
__CPROVER_ensures(xv_rx_off >= __CPROVER_old(xv_rx_off) && xv_rx_off <= __CPROVER_old(xv_rx_off) + (long)len)
/* PO[C01,C07] buffer_receive.appends: the buffer grows by exactly the bytes the lower layer delivered, in order;
 * what was buffered before is untouched (also across the realloc) */
__CPROVER_ensures(RX_GROWTH(s))
__CPROVER_ensures(RX_LINK(s) && RX_HDR_KEPT(s))
/* PO[C01] buffer_receive.rv: 1 <=> all len bytes arrived; 0 <=> end of stream; -1/EAGAIN on a short read */
__CPROVER_ensures(__CPROVER_return_value == 1 ==> RB(s).wire_len == __CPROVER_old(RB(s).wire_len) + (uint32_t)len)
__CPROVER_ensures(__CPROVER_return_value == 0 ==> (xv_rx_eof && RB(s).wire_len == __CPROVER_old(RB(s).wire_len)))
__CPROVER_ensures(__CPROVER_return_value == -1 ==> (xv_errno > 0 && RB(s).wire_len < __CPROVER_old(RB(s).wire_len) + (uint32_t)len && \
                                                     (xv_errno != EAGAIN ==> (xv_lower_dead && RB(s).wire_len == __CPROVER_old(RB(s).wire_len)))))
;

/* buffer_hdr(s): complete the 4-byte header */
static int buffer_hdr(struct xcm_socket *s)
__CPROVER_requires(__CPROVER_is_fresh(s, XF_SIZE))
__CPROVER_requires(GHOST_RANGE_IN && RX_MEM(s) && RX_LINK(s))
__CPROVER_assigns(RX_ASSIGNS(s))
RX_ASSIGNS_MEM(s)
/* PO[C06] buffer_hdr.eof_reported: the call in which the lower layer reports end of stream returns 0 (never EAGAIN) */
__CPROVER_ensures((xv_rx_eof && !__CPROVER_old(xv_rx_eof)) ==> __CPROVER_return_value == 0)
__CPROVER_ensures(__CPROVER_return_value >= -1 && __CPROVER_return_value <= 1)
__CPROVER_ensures(MBUF_SHAPE(RB(s)) && LOWER_DEAD_MONOTONE && (__CPROVER_old(xv_rx_eof) ==> xv_rx_eof))
__CPROVER_ensures(xv_rx_off >= __CPROVER_old(xv_rx_off) && xv_rx_off <= __CPROVER_old(xv_rx_off) + 4)
__CPROVER_ensures(RX_GROWTH(s))
__CPROVER_ensures(RX_LINK(s) && RX_HDR_KEPT(s))
/* PO[C01,C07] buffer_hdr.rv: 1 <=> the header is complete (and nothing beyond it was read on its behalf) */
__CPROVER_ensures(__CPROVER_return_value == 1 ==> (__CPROVER_old(RB(s).wire_len) >= 4 ? RB(s).wire_len == __CPROVER_old(RB(s).wire_len) : RB(s).wire_len == 4))
__CPROVER_ensures(__CPROVER_return_value == 0 ==> (xv_rx_eof && RB(s).wire_len == __CPROVER_old(RB(s).wire_len)))
__CPROVER_ensures(__CPROVER_return_value == -1 ==> (xv_errno > 0 && RB(s).wire_len < 4 && \
                                                     (xv_errno != EAGAIN ==> (xv_lower_dead && RB(s).wire_len == __CPROVER_old(RB(s).wire_len)))))
;

/* buffer_payload(s): header complete; validate it, then complete the payload */
static int buffer_payload(struct xcm_socket *s)
__CPROVER_requires(__CPROVER_is_fresh(s, XF_SIZE))
__CPROVER_requires(CNT_RANGE_IN(s) && GHOST_RANGE_IN && RX_MEM(s) && RX_LINK(s))
__CPROVER_requires(RB(s).wire_len >= 4 && !XF(s)->conn.bad && (HDR_OK(XHDR(RB(s).wire_data)) ? RB(s).wire_len - 4 < XHDR(RB(s).wire_data) : RB(s).wire_len == 4))
__CPROVER_assigns(RX_ASSIGNS(s), XF(s)->conn.bad, XF(s)->conn.badness_reason, CN(s, from_lower_bytes), CN(s, from_lower_msgs))
RX_ASSIGNS_MEM(s)
/* PO[C06] buffer_payload.eof_reported: the call in which the lower layer reports end of stream returns 0 (never EAGAIN) */
__CPROVER_ensures((xv_rx_eof && !__CPROVER_old(xv_rx_eof)) ==> __CPROVER_return_value == 0)
__CPROVER_ensures(__CPROVER_return_value >= -1 && __CPROVER_return_value <= 1)
__CPROVER_ensures(MBUF_SHAPE(RB(s)) && LOWER_DEAD_MONOTONE && (__CPROVER_old(xv_rx_eof) ==> xv_rx_eof))
__CPROVER_ensures(xv_rx_off >= __CPROVER_old(xv_rx_off) && xv_rx_off <= __CPROVER_old(xv_rx_off) + (long)MBUF_MSG_MAX)
__CPROVER_ensures(RX_GROWTH(s))
__CPROVER_ensures(RX_LINK(s) && RB(s).wire_len >= 4 && RX_HDR_KEPT(s))
/* PO[C07] buffer_payload.illegal_length: announced length 0 or > max => EPROTO, connection marked bad, nothing read */
__CPROVER_ensures(!HDR_OK(RX_HDR(s)) ==> (__CPROVER_return_value == -1 && xv_errno == EPROTO && XF(s)->conn.bad && XF(s)->conn.badness_reason == EPROTO && \
                                          xv_rx_off == __CPROVER_old(xv_rx_off)))
__CPROVER_ensures(HDR_OK(RX_HDR(s)) ==> (!XF(s)->conn.bad && RB(s).wire_len - 4 <= RX_HDR(s)))
/* PO[C01,C07] buffer_payload.rv: 1 <=> the frame is complete, exactly (nothing of the next frame is read) */
__CPROVER_ensures(__CPROVER_return_value == 1 ==> (HDR_OK(RX_HDR(s)) && RB(s).wire_len == 4 + RX_HDR(s)))
__CPROVER_ensures(__CPROVER_return_value == 0 ==> (xv_rx_eof && RB(s).wire_len == __CPROVER_old(RB(s).wire_len)))
__CPROVER_ensures((__CPROVER_return_value == -1 && HDR_OK(RX_HDR(s))) ==> (xv_errno > 0 && RB(s).wire_len - 4 < RX_HDR(s) && \
                                                     (xv_errno != EAGAIN ==> (xv_lower_dead && RB(s).wire_len == __CPROVER_old(RB(s).wire_len)))))
/* PO[C17] buffer_payload.cnt: from_lower counts a frame exactly when it is complete */
__CPROVER_ensures(__CPROVER_return_value == 1 \
        ? (CN(s, from_lower_msgs) == __CPROVER_old(CN(s, from_lower_msgs)) + 1 && CN(s, from_lower_bytes) == __CPROVER_old(CN(s, from_lower_bytes)) + (int64_t)RB(s).wire_len - 4) \
        : (CN(s, from_lower_msgs) == __CPROVER_old(CN(s, from_lower_msgs)) && CN(s, from_lower_bytes) == __CPROVER_old(CN(s, from_lower_bytes))))
;

/* buffer_msg(s): header then payload */
static int buffer_msg(struct xcm_socket *s)
__CPROVER_requires(__CPROVER_is_fresh(s, XF_SIZE))
__CPROVER_requires(CNT_RANGE_IN(s) && GHOST_RANGE_IN && RX_MEM(s) && RX_SHAPE(s) && RX_LINK(s) && !XF(s)->conn.bad)
__CPROVER_assigns(RX_ASSIGNS(s), XF(s)->conn.bad, XF(s)->conn.badness_reason, CN(s, from_lower_bytes), CN(s, from_lower_msgs))
RX_ASSIGNS_MEM(s)
/* PO[C06] buffer_msg.eof_reported: the call in which the lower layer reports end of stream returns 0 (never EAGAIN) */
__CPROVER_ensures((xv_rx_eof && !__CPROVER_old(xv_rx_eof)) ==> __CPROVER_return_value == 0)
__CPROVER_ensures(__CPROVER_return_value >= -1 && __CPROVER_return_value <= 1)
__CPROVER_ensures(MBUF_SHAPE(RB(s)) && LOWER_DEAD_MONOTONE && (__CPROVER_old(xv_rx_eof) ==> xv_rx_eof))
__CPROVER_ensures(xv_rx_off >= __CPROVER_old(xv_rx_off) && xv_rx_off <= __CPROVER_old(xv_rx_off) + (long)MBUF_WIRE_MAX)
__CPROVER_ensures(RX_GROWTH(s))
__CPROVER_ensures(RX_LINK(s) && RX_HDR_KEPT(s))
/* PO[C07] buffer_msg.illegal_length */
__CPROVER_ensures(XF(s)->conn.bad ==> (__CPROVER_return_value == -1 && xv_errno == EPROTO && XF(s)->conn.badness_reason == EPROTO && RB(s).wire_len == 4 && !HDR_OK(RX_HDR(s))))
__CPROVER_ensures((!XF(s)->conn.bad && RB(s).wire_len >= 4) ==> (HDR_OK(RX_HDR(s)) && RB(s).wire_len - 4 <= RX_HDR(s)))
/* PO[C01,C07] buffer_msg.rv: 1 <=> exactly one complete, legal frame is buffered */
__CPROVER_ensures(__CPROVER_return_value == 1 ==> (!XF(s)->conn.bad && RB(s).wire_len >= 4 && HDR_OK(RX_HDR(s)) && RB(s).wire_len == 4 + RX_HDR(s)))
__CPROVER_ensures(__CPROVER_return_value == 0 ==> (xv_rx_eof && (RB(s).wire_len < 4 || RB(s).wire_len - 4 < RX_HDR(s))))
__CPROVER_ensures((__CPROVER_return_value == -1 && !XF(s)->conn.bad) ==> (xv_errno > 0 && (RB(s).wire_len < 4 || RB(s).wire_len - 4 < RX_HDR(s)) && \
                                                     (xv_errno != EAGAIN ==> xv_lower_dead)))
/* PO[C17] buffer_msg.cnt */
__CPROVER_ensures(__CPROVER_return_value == 1 \
        ? (CN(s, from_lower_msgs) == __CPROVER_old(CN(s, from_lower_msgs)) + 1 && CN(s, from_lower_bytes) == __CPROVER_old(CN(s, from_lower_bytes)) + (int64_t)RB(s).wire_len - 4) \
        : (CN(s, from_lower_msgs) == __CPROVER_old(CN(s, from_lower_msgs)) && CN(s, from_lower_bytes) == __CPROVER_old(CN(s, from_lower_bytes))))
;

/* ---- tcp_receive / tls_receive */
#define TR_R (__CPROVER_old(xv_rx_off) - (long)__CPROVER_old(RB(s).wire_len))   /* stream offset of the frame being assembled (== xv_hR) */
#define TR_H ((uint32_t)(xv_rx_off - TR_R - 4))                                  /* its announced payload length                */
#define TR_BUFSZ(c) ((c) == 0 ? 1 : (c) > MBUF_MSG_MAX ? MBUF_MSG_MAX : (c))
static int XFN(receive)(struct xcm_socket *__restrict s, void *__restrict buf, size_t capacity)
__CPROVER_requires(__CPROVER_is_fresh(s, XF_SIZE))
__CPROVER_requires(CNT_RANGE(s) && GHOST_RANGE && XF_WHOLE_TX(s) && XF_WHOLE_RX(s))
/* capacity 0 is outside this contract: the documented behaviour "truncated to capacity" then consumes a message and
 * returns 0, which a caller cannot tell from end-of-stream; callers pass a real buffer (stated in DESIGN.md) */
__CPROVER_requires(capacity >= 1 && __CPROVER_is_fresh(buf, TR_BUFSZ(capacity)))
/* the offset the memcpy model copies exactly is the payload offset of the tracked stream position */
__CPROVER_requires((xv_k >= RX_START(s) + 4 && xv_k < RX_START(s) + (long)MBUF_WIRE_MAX) ==> (long)xv_mc == xv_k - RX_START(s) - 4)
__CPROVER_requires(XF(s)->conn.bad ==> XF(s)->conn.badness_reason > 0)
__CPROVER_assigns(SENT(s), SB(s).wire_len, CN(s, to_lower_bytes), CN(s, to_lower_msgs), LOWER_SEND_ASSIGNS)
__CPROVER_assigns(RB(s).wire_len, RB(s).wire_capacity, RB(s).wire_data, xv_rx_off, xv_rx_eof)
__CPROVER_assigns(RB(s).wire_capacity > 0: __CPROVER_object_whole(RB(s).wire_data))
__CPROVER_assigns(XF(s)->conn.bad, XF(s)->conn.badness_reason, CN(s, from_lower_bytes), CN(s, from_lower_msgs), CN(s, to_app_bytes), CN(s, to_app_msgs))
__CPROVER_assigns(__CPROVER_object_whole(buf))
__CPROVER_frees(RB(s).wire_data)
/* PO[C06] receive.eof_reported: the call in which the lower layer reports end of stream returns 0 (never EAGAIN) */
__CPROVER_ensures((xv_rx_eof && !__CPROVER_old(xv_rx_eof)) ==> __CPROVER_return_value == 0)
/* PO[C02,C07] receive.bounds: never more than capacity, never more than the maximum message size */
__CPROVER_ensures(__CPROVER_return_value >= -1 && (__CPROVER_return_value > 0 ==> ((size_t)__CPROVER_return_value <= capacity && __CPROVER_return_value <= MBUF_MSG_MAX)))
__CPROVER_ensures(xv_rx_off >= __CPROVER_old(xv_rx_off) && xv_rx_off <= __CPROVER_old(xv_rx_off) + (long)MBUF_WIRE_MAX)
__CPROVER_ensures(CNT_RANGE_OUT(s) && MBUF_SHAPE(RB(s)) && MBUF_SHAPE(SB(s)) && TX_SHAPE(s) && TX_CNT(s) && LOWER_DEAD_MONOTONE)
/* PO[C07] receive.one_frame_buffered: at most one maximum-size frame is ever buffered */
__CPROVER_ensures(RB(s).wire_capacity <= MBUF_WIRE_MAX)
/* PO[C01,C06,C07] receive.partial_kept: nothing delivered => a partial frame stays buffered, byte-exact, never handed out */
__CPROVER_ensures((__CPROVER_return_value <= 0 && !XF(s)->conn.bad) ==> (RX_SHAPE(s) && RX_LINK(s) && RX_CNT(s) && RX_GROWTH(s)))
/* PO[C01,C07] receive.frame: rv > 0 => exactly one frame was consumed: header BE32(H) at stream [R,R+4), 1 <= H <= max,
 * rv == min(H, capacity), buf[i] == stream[R+4+i], the next frame starts right behind this one */
__CPROVER_ensures(__CPROVER_return_value > 0 ==> (RB(s).wire_len == 0 && xv_rx_off >= TR_R + 5 && HDR_OK(TR_H) && \
        (size_t)__CPROVER_return_value == (TR_H <= capacity ? TR_H : capacity)))
__CPROVER_ensures((__CPROVER_return_value > 0 && xv_k >= TR_R && xv_k < TR_R + 4) ==> \
        (uint8_t)((TR_H >> (8 * (3 - (xv_k - TR_R)))) & 0xff) == xv_rx_k)
__CPROVER_ensures((__CPROVER_return_value > 0 && __CPROVER_old(RB(s).wire_len) >= 4) ==> TR_H == RX_HDR_OLD(s))
__CPROVER_ensures((__CPROVER_return_value > 0 && xv_k >= TR_R + 4 && xv_k < TR_R + 4 + (long)__CPROVER_return_value) ==> \
        XV_U8(buf)[xv_k - TR_R - 4] == xv_rx_k)
/* PO[C07,C06] receive.no_fabricated_eof: 0 only at end of stream (or when the pending flush found the connection closed) */
__CPROVER_ensures(__CPROVER_return_value == 0 ==> (xv_rx_eof || (xv_lower_dead && xv_errno == EPIPE)))
/* PO[C07] receive.illegal_length: a header announcing 0 or more than the maximum => EPROTO, sticky */
__CPROVER_ensures((!__CPROVER_old(XF(s)->conn.bad) && XF(s)->conn.bad) ==> (__CPROVER_return_value == -1 && xv_errno == EPROTO && XF(s)->conn.badness_reason == EPROTO && \
        RB(s).wire_len == 4 && !HDR_OK(RX_HDR(s)) && xv_rx_off == TR_R + 4))
/* PO[C06,C07] receive.bad_sticky */
__CPROVER_ensures(__CPROVER_old(XF(s)->conn.bad) ==> (XF(s)->conn.bad && __CPROVER_return_value == -1 && xv_errno == __CPROVER_old(XF(s)->conn.badness_reason) && \
        XF(s)->conn.badness_reason == __CPROVER_old(XF(s)->conn.badness_reason) && xv_rx_off == __CPROVER_old(xv_rx_off)))
/* PO[C06] receive.errno_passthrough: a failure of the connection is reported with the lower layer's errno */
__CPROVER_ensures((__CPROVER_return_value == -1 && xv_errno != EAGAIN && !XF(s)->conn.bad) ==> xv_lower_dead)
/* PO[C17] receive.cnt: delivery counts the bytes really copied; from_lower counts the whole frame */
__CPROVER_ensures(__CPROVER_return_value > 0 \
        ? (CN(s, to_app_msgs) == __CPROVER_old(CN(s, to_app_msgs)) + 1 && CN(s, to_app_bytes) == __CPROVER_old(CN(s, to_app_bytes)) + __CPROVER_return_value && \
           CN(s, from_lower_msgs) == __CPROVER_old(CN(s, from_lower_msgs)) + 1 && CN(s, from_lower_bytes) == __CPROVER_old(CN(s, from_lower_bytes)) + (int64_t)TR_H) \
        : (CN(s, to_app_msgs) == __CPROVER_old(CN(s, to_app_msgs)) && CN(s, to_app_bytes) == __CPROVER_old(CN(s, to_app_bytes)) && \
           CN(s, from_lower_msgs) == __CPROVER_old(CN(s, from_lower_msgs)) && CN(s, from_lower_bytes) == __CPROVER_old(CN(s, from_lower_bytes))))
__CPROVER_ensures(CN(s, to_lower_msgs) >= __CPROVER_old(CN(s, to_lower_msgs)) && CN(s, to_lower_bytes) >= __CPROVER_old(CN(s, to_lower_bytes)))
;

/* ---- tcp_finish / tls_finish */
static int XFN(finish)(struct xcm_socket *s)
__CPROVER_requires(__CPROVER_is_fresh(s, XF_SIZE) && s->type == xcm_socket_type_conn)
__CPROVER_requires(CNT_RANGE(s) && GHOST_RANGE && XF_WHOLE_TX(s))
__CPROVER_requires(XF(s)->conn.bad ==> XF(s)->conn.badness_reason > 0)
__CPROVER_assigns(SENT(s), SB(s).wire_len, CN(s, to_lower_bytes), CN(s, to_lower_msgs), LOWER_SEND_ASSIGNS)
__CPROVER_ensures(__CPROVER_return_value == 0 || (__CPROVER_return_value == -1 && xv_errno > 0))
__CPROVER_ensures(CNT_RANGE_OUT(s) && TX_SHAPE(s) && TX_CNT(s) && LOWER_DEAD_MONOTONE)
/* PO[C01,C03] finish.flushed: success => no accepted message is still held back */
__CPROVER_ensures(__CPROVER_return_value == 0 ==> (SB(s).wire_len == 0 && !xv_lower_dead))
/* PO[C06] finish.bad_sticky / errno passthrough */
__CPROVER_ensures(__CPROVER_old(XF(s)->conn.bad) ==> (__CPROVER_return_value == -1 && xv_errno == XF(s)->conn.badness_reason && xv_tx_off == __CPROVER_old(xv_tx_off)))
__CPROVER_ensures((__CPROVER_return_value == -1 && xv_errno != EAGAIN && !XF(s)->conn.bad) ==> xv_lower_dead)
;

/* ---- tcp_update / tls_update: a pending outbound frame forces SENDABLE interest on the layer below (C04); nothing
 * pending => the lower condition is exactly the application's (C16) */
static void XFN(update)(struct xcm_socket *s)
__CPROVER_requires(__CPROVER_is_fresh(s, XF_SIZE) && s->type == xcm_socket_type_conn)
__CPROVER_requires(__CPROVER_is_fresh(XF_LOWER(s), sizeof(struct xcm_socket)))
__CPROVER_requires(MBUF_SHAPE(SB(s)) && MBUF_MEM(SB(s)) && TX_SHAPE(s))
__CPROVER_assigns(XF_LOWER(s)->condition, xv_lower_updated_with, xv_lower_updated)
/* PO[C04] update.pending_frame_wants_sendable */
__CPROVER_ensures(xv_lower_updated && (SB(s).wire_len != 0 ==> xv_lower_updated_with == (s->condition | XCM_SO_SENDABLE)))
/* PO[C16] update.exact_when_idle */
__CPROVER_ensures(SB(s).wire_len == 0 ==> xv_lower_updated_with == s->condition)
;

#include "contracts/end.h"
#endif
